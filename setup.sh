#!/bin/sh
# Installs the third-party runtime-contract library (icontract) next to the
# framework, offline, from the wheelhouse. Idempotent; safe to run concurrently.
set -e
cd "$(dirname "$0")"
if [ -d .deps/icontract ]; then exit 0; fi
mkdir -p .deps
(
  flock 9
  if [ ! -d .deps/icontract ]; then
    PIP_NO_INDEX=1 /venv/bin/pip install --quiet --no-index \
      --find-links /opt/veriftools/wheels --target .deps.tmp.$$ icontract \
      >/dev/null 2>&1 || { rm -rf .deps.tmp.$$; echo "setup: icontract unavailable (hand-written contracts will be used)"; exit 0; }
    for d in .deps.tmp.$$/*; do mv "$d" .deps/ 2>/dev/null || true; done
    rm -rf .deps.tmp.$$
  fi
) 9>.deps/.lock
exit 0
