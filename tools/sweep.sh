#!/bin/sh
# tools/sweep.sh <tier> <seed>...   runs every check for each seed, prints one line per run
TIER="$1"; shift
for S in "$@"; do
  for P in C01 C02 C03 C04 C05 C06 C07 C08 C09 C10 C11 C12 C13 C14 C15 C16 C17 C18 C19 C20; do
    R=$(VERIF_SEED=$S ./check $P --tier $TIER 2>&1 | grep -av condarc)
    V=$(echo "$R" | grep -ac '^VIOLATION')
    I=$(echo "$R" | grep -ac '^INCONCLUSIVE')
    echo "seed=$S $P tier=$TIER violations=$V inconclusive=$I :: $(echo "$R" | grep -aE '^C[0-9]+ tier' | cut -c1-90)"
    if [ "$V" != 0 ] || [ "$I" != 0 ]; then echo "$R" | grep -aE -A1 '^VIOLATION|^INCONCLUSIVE' | cut -c1-700 | head -12; fi
  done
done
