#!/bin/sh
# tools/run_seeded.sh <diff> <demo.py> <checks...>
# Applies a seeded change to a scratch worktree of /repo, confirms that the
# repository's own tests still pass and that the demonstration fails with the
# change, runs the given checks against the scratch tree and removes it.
set -u
DIFF="$1"; DEMO="$2"; shift 2
ID=$(basename "$DIFF" .diff)-$$
WT=/tmp/mut-$ID
OUT=/tmp/mut-out-$ID
git -C /repo worktree add -q --detach "$WT" HEAD || exit 2
trap 'git -C /repo worktree remove --force "$WT" >/dev/null 2>&1; rm -rf "$OUT"' EXIT
if ! git -C "$WT" apply "$DIFF"; then echo "RESULT apply-failed"; exit 2; fi
T=$(cd "$WT" && /venv/bin/python -m pytest -q -p no:cacheprovider 2>&1 | tail -1)
echo "tests-with-change: $T"
(cd "$WT" && /venv/bin/python "$DEMO" >/dev/null 2>&1); echo "demo-with-change-exit: $?"
(cd /repo && /venv/bin/python "$DEMO" >/dev/null 2>&1); echo "demo-clean-exit: $?"
mkdir -p "$OUT"
for C in "$@"; do
  R=$(cd /verif && VERIF_REPO="$WT" VERIF_OUT="$OUT" ./check "$C" --tier quick 2>&1 | grep -a -av condarc)
  if echo "$R" | grep -a -aq '^VIOLATION'; then
    NW=$(echo "$R" | grep -a 'kind=' | grep -a -vc 'kind=regression-of-fixed')
    echo "check $C: CAUGHT (workload violations: $NW) $(echo "$R" | grep -a 'kind=' | grep -a -v 'kind=regression-of-fixed' | head -1 | cut -c1-200)$(echo "$R" | grep -a 'kind=regression-of-fixed' | head -1 | cut -c1-60)"
  elif echo "$R" | grep -a -aq '^INCONCLUSIVE'; then
    echo "check $C: inconclusive $(echo "$R" | grep -a '^INCONCLUSIVE' | head -1 | cut -c1-200)"
  else
    echo "check $C: missed"
  fi
done
