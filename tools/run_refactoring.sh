#!/bin/sh
# tools/run_refactoring.sh <diff> : applies a behaviour-preserving refactoring
# to a scratch worktree and runs EVERY quick check on it; any VIOLATION or
# INCONCLUSIVE line is a false alarm of the machinery.
DIFF="$1"
ID=$(basename "$DIFF" .diff)-$$
WT=/tmp/ref-$ID; OUT=/tmp/ref-out-$ID
git -C /repo worktree add -q --detach "$WT" HEAD || exit 2
trap 'git -C /repo worktree remove --force "$WT" >/dev/null 2>&1; rm -rf "$OUT"' EXIT
git -C "$WT" apply "$DIFF" || { echo "apply failed"; exit 2; }
echo "tests: $(cd "$WT" && /venv/bin/python -m pytest -q -p no:cacheprovider 2>&1 | tail -1)"
mkdir -p "$OUT"
for C in C01 C02 C03 C04 C05 C06 C07 C08 C09 C10 C11 C12 C13 C14 C15 C16 C17 C18 C19 C20; do
  R=$(cd /verif && VERIF_REPO="$WT" VERIF_OUT="$OUT" ./check "$C" --tier quick 2>&1 | grep -av condarc)
  echo "$C: $(echo "$R" | grep -aE '^(HELD|VIOLATION|INCONCLUSIVE)' | head -2 | cut -c1-200 | tr '\n' ' ')"
  echo "$R" | grep -aE '^VIOLATION|^INCONCLUSIVE' -A1 | cut -c1-400 | head -6
  N=$(python3 -c "
import json
c=json.load(open('$OUT/evidence/$C.json'))['coverage']
print([n for n in c.get('notes',[]) if 'unavailable' in n][:3])" 2>/dev/null)
  [ "$N" != "[]" ] && echo "   notes: $N"
done
