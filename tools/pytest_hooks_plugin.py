"""pytest plugin: run the repository's own tests with the M-* hooks on.
usage: cd /repo && PYTHONPATH=/verif:/verif/.deps /venv/bin/python -m pytest \
         -q -p no:cacheprovider -p tools.pytest_hooks_plugin"""
from vlib import hooks

hooks.install_all()


def pytest_runtest_teardown(item):
    v = hooks.STATE.drain_violations()
    if v:
        print('\nHOOK-VIOLATION in %s: %r' % (item.nodeid, v[:3]))
    hooks.STATE.reset_streams()


def pytest_sessionfinish(session, exitstatus):
    st = hooks.STATE
    print('\n[verif hooks] installed=%s unavailable=%s lex_calls=%d '
          'split_events=%d group_tokens=%d checked=%d passes=%d'
          % (st.installed, st.unavailable, st.lex_calls, st.split_events,
             st.grp_calls, st.grp_checked, sum(st.pass_calls.values())))
