#!/usr/bin/env python3
"""Systematic mutation run (measures the checks, not the library).

tools/mutate.py --n 200 --seed 1 --out /tmp/mutation.jsonl [--budget 10]

Enumerates syntactic mutation points in sqlparse/*.py (comparison flips,
and/or, not-removal, +/-, small integer +-1, True/False, statement deletion),
samples N of them, and for each: applies it to a scratch worktree of /repo,
runs the repository's own suite (a mutant the suite kills is uninteresting)
and then the checks mapped to the mutated file until one reports a
violation. One JSON line per mutant. Nothing is ever written to /repo."""
import argparse
import ast
import copy
import json
import os
import random
import subprocess
import sys
import time

REPO = '/repo'
FILES = {
    'sqlparse/lexer.py': ['C01', 'C14', 'C02', 'C19', 'C20'],
    'sqlparse/utils.py': ['C06', 'C10', 'C03', 'C12', 'C08', 'C09'],
    'sqlparse/sql.py': ['C03', 'C07', 'C12', 'C13', 'C18', 'C09', 'C11',
                        'C10'],
    'sqlparse/engine/grouping.py': ['C09', 'C13', 'C12', 'C03', 'C07', 'C11',
                                    'C18', 'C10'],
    'sqlparse/engine/statement_splitter.py': ['C04', 'C05', 'C17', 'C02'],
    'sqlparse/engine/filter_stack.py': ['C15', 'C02', 'C07', 'C04'],
    'sqlparse/filters/others.py': ['C06', 'C08', 'C10', 'C07', 'C04'],
    'sqlparse/filters/reindent.py': ['C06', 'C10', 'C07', 'C20'],
    'sqlparse/filters/aligned_indent.py': ['C06', 'C07'],
    'sqlparse/filters/tokens.py': ['C08'],
    'sqlparse/filters/output.py': ['C07', 'C20'],
    'sqlparse/formatter.py': ['C07', 'C06', 'C08', 'C10'],
    'sqlparse/cli.py': ['C19'],
    'sqlparse/__init__.py': ['C04', 'C19', 'C02', 'C07'],
}

CMP = {ast.Eq: ast.NotEq, ast.NotEq: ast.Eq, ast.Lt: ast.LtE, ast.LtE: ast.Lt,
       ast.Gt: ast.GtE, ast.GtE: ast.Gt, ast.Is: ast.IsNot,
       ast.IsNot: ast.Is, ast.In: ast.NotIn, ast.NotIn: ast.In}


class Collector(ast.NodeVisitor):
    def __init__(self):
        self.points = []     # (kind, lineno, col, extra)
        self.depth = 0

    def generic_visit(self, node):
        if isinstance(node, ast.Compare) and len(node.ops) == 1 \
                and type(node.ops[0]) in CMP:
            self.points.append(('cmp', node.lineno, node.col_offset, None))
        elif isinstance(node, ast.BoolOp):
            self.points.append(('bool', node.lineno, node.col_offset, None))
        elif isinstance(node, ast.UnaryOp) and isinstance(node.op, ast.Not):
            self.points.append(('not', node.lineno, node.col_offset, None))
        elif isinstance(node, ast.BinOp) and isinstance(node.op,
                                                        (ast.Add, ast.Sub)):
            self.points.append(('arith', node.lineno, node.col_offset, None))
        elif isinstance(node, ast.Constant):
            if isinstance(node.value, bool):
                self.points.append(('bool-const', node.lineno,
                                    node.col_offset, None))
            elif isinstance(node.value, int) and -3 <= node.value <= 10:
                self.points.append(('int+1', node.lineno, node.col_offset,
                                    None))
                self.points.append(('int-1', node.lineno, node.col_offset,
                                    None))
        elif isinstance(node, (ast.Expr, ast.Assign, ast.AugAssign,
                               ast.Continue, ast.Break, ast.Return)) \
                and self.depth > 0:
            if not (isinstance(node, ast.Expr)
                    and isinstance(node.value, ast.Constant)):
                self.points.append(('del-stmt', node.lineno, node.col_offset,
                                    type(node).__name__))
        elif isinstance(node, ast.If) and self.depth > 0:
            self.points.append(('if-true', node.lineno, node.col_offset,
                                None))
            self.points.append(('if-false', node.lineno, node.col_offset,
                                None))
        is_func = isinstance(node, (ast.FunctionDef, ast.AsyncFunctionDef))
        if is_func:
            self.depth += 1
        super().generic_visit(node)
        if is_func:
            self.depth -= 1


class Mutator(ast.NodeTransformer):
    def __init__(self, point):
        self.kind, self.line, self.col, self.extra = point
        self.done = False

    def _hit(self, node):
        return (not self.done and getattr(node, 'lineno', None) == self.line
                and getattr(node, 'col_offset', None) == self.col)

    def visit(self, node):
        if self._hit(node):
            k = self.kind
            if k == 'cmp' and isinstance(node, ast.Compare):
                self.done = True
                node = copy.deepcopy(node)
                node.ops = [CMP[type(node.ops[0])]()]
                return node
            if k == 'bool' and isinstance(node, ast.BoolOp):
                self.done = True
                node = copy.deepcopy(node)
                node.op = ast.Or() if isinstance(node.op, ast.And) \
                    else ast.And()
                return node
            if k == 'not' and isinstance(node, ast.UnaryOp):
                self.done = True
                return node.operand
            if k == 'arith' and isinstance(node, ast.BinOp):
                self.done = True
                node = copy.deepcopy(node)
                node.op = ast.Sub() if isinstance(node.op, ast.Add) \
                    else ast.Add()
                return node
            if k == 'bool-const' and isinstance(node, ast.Constant):
                self.done = True
                return ast.copy_location(ast.Constant(not node.value), node)
            if k in ('int+1', 'int-1') and isinstance(node, ast.Constant) \
                    and not isinstance(node.value, bool):
                self.done = True
                d = 1 if k == 'int+1' else -1
                return ast.copy_location(ast.Constant(node.value + d), node)
            if k == 'del-stmt' and isinstance(node, ast.stmt) \
                    and type(node).__name__ == self.extra:
                self.done = True
                return ast.copy_location(ast.Pass(), node)
            if k in ('if-true', 'if-false') and isinstance(node, ast.If):
                self.done = True
                node = copy.deepcopy(node)
                node.test = ast.copy_location(
                    ast.Constant(k == 'if-true'), node.test)
                self.generic_visit(node)
                return node
        return self.generic_visit(node)


def enumerate_points():
    pts = []
    for rel in FILES:
        src = open(os.path.join(REPO, rel)).read()
        tree = ast.parse(src)
        c = Collector()
        c.visit(tree)
        for p in c.points:
            pts.append((rel, p))
    return pts


def run(cmd, cwd, timeout, env=None):
    try:
        p = subprocess.run(cmd, cwd=cwd, capture_output=True, text=True,
                           errors='replace', timeout=timeout, env=env)
        return p.returncode, p.stdout + p.stderr
    except subprocess.TimeoutExpired:
        return 'timeout', ''


def main():
    ap = argparse.ArgumentParser()
    ap.add_argument('--n', type=int, default=100)
    ap.add_argument('--seed', type=int, default=1)
    ap.add_argument('--budget', type=float, default=10)
    ap.add_argument('--out', default='/tmp/mutation.jsonl')
    args = ap.parse_args()
    pts = enumerate_points()
    rng = random.Random(args.seed)
    rng.shuffle(pts)
    pts = pts[:args.n]
    wt = '/tmp/mutwt-%d' % os.getpid()
    outdir = '/tmp/mutout-%d' % os.getpid()
    subprocess.run(['git', '-C', REPO, 'worktree', 'add', '-q', '--detach',
                    wt, 'HEAD'], check=True)
    try:
        for i, (rel, point) in enumerate(pts):
            rec = {'file': rel, 'kind': point[0], 'line': point[1],
                   'col': point[2]}
            path = os.path.join(wt, rel)
            orig = open(os.path.join(REPO, rel)).read()
            tree = ast.parse(orig)
            m = Mutator(point)
            new = m.visit(tree)
            if not m.done:
                continue
            ast.fix_missing_locations(new)
            try:
                text = ast.unparse(new)
            except Exception:
                continue
            rec['source_line'] = orig.splitlines()[point[1] - 1].strip()[:120]
            open(path, 'w').write(text + '\n')
            t0 = time.time()
            rc, out = run(['/venv/bin/python', '-m', 'pytest', '-q', '-x',
                           '-p', 'no:cacheprovider', '--timeout=120'],
                          wt, 600)
            tail = out.strip().splitlines()[-1] if out.strip() else ''
            if rc != 0:
                rec['result'] = 'killed-by-repo-tests'
                rec['tests'] = tail[:100]
            else:
                rec['result'] = 'SURVIVED-ALL-CHECKS'
                rec['checks_run'] = []
                env = dict(os.environ, VERIF_REPO=wt, VERIF_OUT=outdir)
                for chk in FILES[rel]:
                    rc2, o2 = run(['./check', chk, '--tier', 'quick',
                                   '--budget', str(args.budget)],
                                  '/verif', 900, env)
                    rec['checks_run'].append(chk)
                    if 'VIOLATION property=' in o2:
                        rec['result'] = 'caught'
                        rec['caught_by'] = chk
                        kinds = [l.strip()[:160] for l in o2.splitlines()
                                 if l.strip().startswith('kind=')]
                        rec['first'] = kinds[0] if kinds else ''
                        break
                    if 'INCONCLUSIVE property=' in o2:
                        rec.setdefault('inconclusive', []).append(chk)
            rec['seconds'] = round(time.time() - t0, 1)
            open(path, 'w').write(orig)
            with open(args.out, 'a') as f:
                f.write(json.dumps(rec) + '\n')
            print(i, rec['file'], rec['kind'], rec['line'], rec['result'],
                  rec.get('caught_by', ''), flush=True)
    finally:
        subprocess.run(['git', '-C', REPO, 'worktree', 'remove', '--force',
                        wt])
        subprocess.run(['rm', '-rf', outdir])


if __name__ == '__main__':
    main()
