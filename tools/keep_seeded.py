#!/usr/bin/env python3
"""tools/keep_seeded.py <eval log> : turns the sub-agents' confirmed changes
(/tmp/sa/CNN/_out/mK.*) and the evaluation log into /verif/seeded/<id>/
{patch.diff, demo.py, meta.json} and prints the markdown table for DESIGN."""
import json
import os
import re
import shutil
import sys

log = open(sys.argv[1], errors='replace').read()
blocks = re.split(r'^=== ', log, flags=re.M)[1:]
rows = []
for b in blocks:
    head = b.splitlines()[0]
    m = re.match(r'(C\d+) m(\d+):', head)
    if not m:
        continue
    pid, k = m.group(1), m.group(2)
    sm = re.search(r'^src: (\S+)/m(\d+)$', b, flags=re.M)
    if sm:
        src, n = sm.group(1), sm.group(2)
    else:
        src, n = '/tmp/sa/%s/_out' % pid, k
    try:
        meta = json.load(open('%s/m%s.json' % (src, n)))
    except Exception:
        continue
    tests = re.search(r'tests-with-change: (.*)', b)
    dw = re.search(r'demo-with-change-exit: (\d+)', b)
    dc = re.search(r'demo-clean-exit: (\d+)', b)
    checks = re.findall(r'check (C\d+): (CAUGHT|missed|inconclusive)(.*)', b)
    ok = (tests and not re.search(r'\b\d+ (failed|error)', tests.group(1))
          and '461 passed' in
          tests.group(1) and dw and dw.group(1) != '0' and dc
          and dc.group(1) == '0')
    if not ok:
        print('NOT KEPT', pid, k, tests and tests.group(1), dw and dw.group(1),
              dc and dc.group(1), file=sys.stderr)
        continue
    sid = '%s-m%s' % (pid, k)
    dst = os.path.join('/verif/seeded', sid)
    os.makedirs(dst, exist_ok=True)
    shutil.copy('%s/m%s.diff' % (src, n), dst + '/patch.diff')
    shutil.copy('%s/m%s_demo.py' % (src, n), dst + '/demo.py')
    caught = [c for c, r, d in checks if r == 'CAUGHT']
    missed = [c for c, r, d in checks if r != 'CAUGHT']
    first = next((d for c, r, d in checks if r == 'CAUGHT'), '')
    kind = re.search(r'kind=([\w+.-]+)', first)
    json.dump({
        'id': sid, 'property': pid,
        'summary': meta.get('summary'), 'needs': meta.get('needs'),
        'files': meta.get('files'),
        'origin': 'written by an independent sub-agent that saw only the '
                  'property text and a scratch worktree of /repo (round %d)'
                  % int(os.environ.get('ROUND', (int(k) - 1) // 3 + 1)),
        'confirmed': {
            'repo_tests_with_change': tests.group(1),
            'demo_exit_with_change': int(dw.group(1)),
            'demo_exit_clean': int(dc.group(1)),
            'how': 'tools/run_seeded.sh patch.diff demo.py <checks> '
                   '(scratch worktree of /repo HEAD, removed afterwards)'},
        'checks_run': [c for c, r, d in checks],
        'caught_by': caught, 'missed_by': missed,
        'first_violation_kind': kind.group(1) if kind else None,
    }, open(dst + '/meta.json', 'w'), indent=1)
    rows.append((sid, (meta.get('summary') or '')[:110].replace('|', '/'),
                 ', '.join(caught) or '—', ', '.join(missed) or '—',
                 kind.group(1) if kind else ''))
print('| seeded change | what it does | caught by | missed by | first '
      'violation kind |')
print('|---|---|---|---|---|')
for r in rows:
    print('| %s | %s | %s | %s | %s |' % r)
