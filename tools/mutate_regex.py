#!/usr/bin/env python3
"""Mutation run over the lexer's rule table (keywords.SQL_REGEX).

tools/mutate_regex.py --n 150 --seed 1 --out /tmp/mutation_rx.jsonl

Operators: delete a rule, swap two neighbouring rules, and inside a rule's
regular expression: drop a \\b, \\s+ -> \\s* / \\s, X+ -> X*, drop a ?,
lazy -> greedy, drop a look-around's negation. Same protocol as mutate.py:
scratch worktree, repository suite first, then the mapped checks until one
reports a violation."""
import argparse
import ast
import json
import os
import random
import re
import subprocess
import time

REPO = '/repo'
REL = 'sqlparse/keywords.py'
CHECKS = ['C14', 'C01', 'C05', 'C11', 'C12', 'C16', 'C18', 'C13', 'C17',
          'C09', 'C04', 'C08']


def rules(tree):
    for node in tree.body:
        if isinstance(node, ast.Assign) and any(
                isinstance(t, ast.Name) and t.id == 'SQL_REGEX'
                for t in node.targets):
            return node.value
    raise SystemExit('SQL_REGEX not found')


def regex_mutations(rx):
    out = []
    for m in re.finditer(r'\\b', rx):
        out.append(('drop-\\b', rx[:m.start()] + rx[m.end():]))
    for m in re.finditer(r'\\s\+', rx):
        out.append(('\\s+->\\s*', rx[:m.start()] + '\\s*' + rx[m.end():]))
        out.append(('\\s+->\\s', rx[:m.start()] + '\\s' + rx[m.end():]))
    for m in re.finditer(r'(?<=[\]\)\w])\+(?!\?)', rx):
        out.append(('+->*', rx[:m.start()] + '*' + rx[m.end():]))
    for m in re.finditer(r'(?<=[\]\)\w])\*\?', rx):
        out.append(('lazy->greedy', rx[:m.start()] + '*' + rx[m.end():]))
    for m in re.finditer(r'(?<=[\]\)\w])\?(?![:=!<])', rx):
        out.append(('drop-?', rx[:m.start()] + rx[m.end():]))
    for m in re.finditer(r'\(\?<!', rx):
        out.append(('lookbehind-sign', rx[:m.start()] + '(?<=' + rx[m.end():]))
    for m in re.finditer(r'\(\?!', rx):
        out.append(('lookahead-sign', rx[:m.start()] + '(?=' + rx[m.end():]))
    good = []
    for kind, new in out:
        try:
            re.compile(new, re.I | re.U)
        except re.error:
            continue
        if new != rx:
            good.append((kind, new))
    return good


def enumerate_mutants():
    src = open(os.path.join(REPO, REL)).read()
    tree = ast.parse(src)
    lst = rules(tree)
    n = len(lst.elts)
    muts = []
    for i, el in enumerate(lst.elts):
        muts.append(('delete-rule', i, None))
        if i + 1 < n:
            muts.append(('swap-rules', i, None))
        rx = el.elts[0]
        if isinstance(rx, ast.Constant) and isinstance(rx.value, str):
            for kind, new in regex_mutations(rx.value):
                muts.append((kind, i, new))
    return src, muts


def apply(src, mut):
    kind, i, new = mut
    tree = ast.parse(src)
    lst = rules(tree)
    if kind == 'delete-rule':
        del lst.elts[i]
    elif kind == 'swap-rules':
        lst.elts[i], lst.elts[i + 1] = lst.elts[i + 1], lst.elts[i]
    else:
        lst.elts[i].elts[0] = ast.copy_location(ast.Constant(new),
                                                lst.elts[i].elts[0])
    ast.fix_missing_locations(tree)
    return ast.unparse(tree) + '\n'


def run(cmd, cwd, timeout, env=None):
    try:
        p = subprocess.run(cmd, cwd=cwd, capture_output=True, text=True,
                           errors='replace', timeout=timeout, env=env)
        return p.returncode, p.stdout + p.stderr
    except subprocess.TimeoutExpired:
        return 'timeout', ''


def main():
    ap = argparse.ArgumentParser()
    ap.add_argument('--n', type=int, default=100)
    ap.add_argument('--seed', type=int, default=1)
    ap.add_argument('--budget', type=float, default=10)
    ap.add_argument('--out', default='/tmp/mutation_rx.jsonl')
    args = ap.parse_args()
    src, muts = enumerate_mutants()
    print('mutants available:', len(muts), flush=True)
    rng = random.Random(args.seed)
    rng.shuffle(muts)
    muts = muts[:args.n]
    wt = '/tmp/mutrx-%d' % os.getpid()
    outdir = '/tmp/mutrxout-%d' % os.getpid()
    subprocess.run(['git', '-C', REPO, 'worktree', 'add', '-q', '--detach',
                    wt, 'HEAD'], check=True)
    path = os.path.join(wt, REL)
    orig_rules = [el.elts[0].value for el in rules(ast.parse(src)).elts]
    try:
        for k, mut in enumerate(muts):
            kind, i, new = mut
            rec = {'kind': kind, 'rule': i, 'old': orig_rules[i][:80],
                   'new': (new or '')[:80]}
            open(path, 'w').write(apply(src, mut))
            t0 = time.time()
            rc, out = run(['/venv/bin/python', '-m', 'pytest', '-q', '-x',
                           '-p', 'no:cacheprovider', '--timeout=120'],
                          wt, 600)
            if rc != 0:
                rec['result'] = 'killed-by-repo-tests'
            else:
                rec['result'] = 'SURVIVED-ALL-CHECKS'
                rec['checks_run'] = []
                env = dict(os.environ, VERIF_REPO=wt, VERIF_OUT=outdir)
                for chk in CHECKS:
                    rc2, o2 = run(['./check', chk, '--tier', 'quick',
                                   '--budget', str(args.budget)],
                                  '/verif', 900, env)
                    rec['checks_run'].append(chk)
                    if 'VIOLATION property=' in o2:
                        rec['result'] = 'caught'
                        rec['caught_by'] = chk
                        kinds = [l.strip()[:160] for l in o2.splitlines()
                                 if l.strip().startswith('kind=')]
                        rec['first'] = kinds[0] if kinds else ''
                        break
                    if 'INCONCLUSIVE property=' in o2:
                        rec.setdefault('inconclusive', []).append(chk)
            rec['seconds'] = round(time.time() - t0, 1)
            with open(args.out, 'a') as f:
                f.write(json.dumps(rec) + '\n')
            print(k, kind, i, rec['result'], rec.get('caught_by', ''),
                  flush=True)
    finally:
        subprocess.run(['git', '-C', REPO, 'worktree', 'remove', '--force',
                        wt])
        subprocess.run(['rm', '-rf', outdir])


if __name__ == '__main__':
    main()
