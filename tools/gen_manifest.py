#!/usr/bin/env python3
"""Regenerates MANIFEST.json from the property modules that exist."""
import importlib
import json
import os
import sys

HERE = os.path.dirname(os.path.dirname(os.path.abspath(__file__)))
sys.path[:0] = ['/repo', HERE, os.path.join(HERE, '.deps')]

props = [json.loads(l) for l in open(os.path.join(HERE, 'properties.jsonl'))]
BASE = json.load(open('/root/.vp/BASELINE.json'))['cmd']
checks, na = [], []
for p in props:
    pid = p['id']
    path = os.path.join(HERE, 'vlib', 'props', pid.lower() + '.py')
    if not os.path.exists(path):
        na.append({'property_id': pid,
                   'reason': 'check not built yet (work in progress; the '
                             'technique applies, see DESIGN.md)'})
        continue
    mod = importlib.import_module('vlib.props.' + pid.lower())
    checks.append({
        'property_id': pid,
        'quick_cmd': './check %s --tier quick' % pid,
        'thorough_cmd': './check %s --tier thorough' % pid,
        'evidence_file': '/verif/evidence/%s.json' % pid,
        'replay_cmd_template': './check %s --replay {path}' % pid,
        'engine': 'vlib',
        'level_claimed': {
            'category': getattr(mod, 'LEVEL', 'exploration'),
            'text': getattr(mod, 'LEVEL_TEXT', None) or (
                'Runtime monitoring: held on the K executions of the real '
                'code that this run observed (K and what they covered are in '
                'the evidence file); not a proof. ' + mod.RULE),
            'design_ref': 'DESIGN.md §4 ' + pid,
        },
        'level_note': '; '.join(getattr(mod, 'ASSUMPTIONS', [])) or
                      'oracle observes the public API of the working tree',
        'technique': getattr(mod, 'TECHNIQUE', 'runtime monitoring: '
                             'generated hostile workload + deterministic '
                             'oracle on observed executions'),
    })
manifest = {
    'version': 1,
    'setup_cmd': 'sh ./setup.sh',
    'hooks': {
        'guard': 'SQLPARSE_VERIF',
        'enable': 'none needed: every monitor is installed from the harness '
                  'by patching the imported classes (vlib/hooks.py); /repo '
                  'carries no instrumentation',
        'baseline_off_cmd': BASE,
        'source_commits': [],
        'add_only': True,
    },
    'engines': [{
        'name': 'vlib',
        'path': '/verif/vlib',
        'serves_properties': [c['property_id'] for c in checks],
        'kind_free_text': 'runtime monitors (hook monitors, reference-model '
                          'monitors, offline stream checkers, metamorphic '
                          'monitors, schedule perturbation) over generated '
                          'workloads, 16 shard subprocesses per check',
    }],
    'checks': checks,
    'not_applicable': na,
    'notes': 'All checks: ./check <ID> [--tier quick|thorough] [--replay '
             'PATH]; VERIF_SEED and VERIF_TIER are honoured. Exit 0 held, 1 '
             'violation (VIOLATION line), 3 inconclusive (a deciding monitor '
             'observed nothing or the watchdog fired). Known findings: '
             '/verif/known_findings.json.',
}
with open(os.path.join(HERE, 'MANIFEST.json'), 'w') as f:
    json.dump(manifest, f, indent=1)
print('checks:', [c['property_id'] for c in checks])
print('not_applicable:', [x['property_id'] for x in na])
