"""One C15 cell, in its own process:
python -m vlib.c15_cell '<json: construct, depth, limit, entry>'
Prints one JSON line with what was observed."""
import faulthandler
import io
import json
import resource
import sys


def build(construct, n):
    if construct.endswith('+multi'):
        # the pathological statement is not the last one of the input
        return build(construct[:-6], n) + '; select 2; select 3 from t;'
    if construct == 'open_parens':
        return 'select ' + '(' * n
    if construct == 'parens':
        return 'select ' + '(' * n + '1' + ')' * n
    if construct == 'brackets':
        return 'select a' + '[' * n + '1' + ']' * n
    if construct == 'case':
        return 'select ' + 'case when a then ' * n + '1' + ' end' * n
    if construct == 'calls':
        return 'select ' + 'f(' * n + '1' + ')' * n
    if construct == 'subqueries':
        return 'select * from ' + '(select * from ' * n + 't' + ')' * n
    if construct == 'operators':
        return 'select ' + 'a+' * n + 'a'
    if construct == 'comparisons':
        return 'select ' + 'a=' * n + 'a'
    if construct == 'casts':
        return 'select a' + '::b' * n
    if construct == 'begin':
        return 'begin ' * n + 'x' + ' end' * n
    if construct == 'if':
        return 'if a then ' * n + 'x' + ' end if' * n
    if construct == 'paren_lists':
        return 'select ' + '(a,' * n + 'b' + ')' * n
    if construct == 'open_case':
        return 'select ' + 'case when a then ' * n
    if construct == 'dots':
        return 'select ' + 'a.' * n + 'a'
    raise ValueError(construct)


ENTRIES = {
    'parse': None, 'parsestream': None, 'split': None,
    'format': {},
    'format_reindent': {'reindent': True},
    'format_aligned': {'reindent_aligned': True},
    'format_strip_ops': {'strip_comments': True,
                         'use_space_around_operators': True},
    'format_python': {'output_format': 'python', 'reindent': True},
    'format_case': {'keyword_case': 'upper', 'identifier_case': 'lower',
                    'strip_whitespace': True},
}


def leaves_iter(root):
    out = []
    stack = [root]
    while stack:
        n = stack.pop()
        if getattr(n, 'is_group', False):
            stack.extend(reversed(n.tokens))
        else:
            out.append(n)
    return out


def check_trees(text, stmts):
    """C02/C03 oracles, iteratively (no recursion at all)."""
    joined = []
    for s in stmts:
        if s.parent is not None:
            return 'statement has a parent'
        stack = [(s, None)]
        seen = set()
        while stack:
            node, parent = stack.pop()
            if id(node) in seen:
                return 'node occurs twice'
            seen.add(id(node))
            if parent is not None and node.parent is not parent:
                return 'wrong parent pointer on %s' % type(node).__name__
            if getattr(node, 'is_group', False):
                if not node.tokens:
                    return 'empty group %s' % type(node).__name__
                for k in node.tokens:
                    stack.append((k, node))
        lv = leaves_iter(s)
        joined.append(''.join(l.value for l in lv))
        # cached values along the leftmost and rightmost spine + a sample
        groups = [n for n in _groups(s)]
        step = max(1, len(groups) // 40)
        for g in groups[::step]:
            txt = ''.join(l.value for l in leaves_iter(g))
            if g.value != txt:
                return 'stale cached value on %s' % type(g).__name__
    j = ''.join(joined)
    if not text.startswith(j) or text[len(j):].strip():
        return 'round trip broken: %d of %d chars' % (len(j), len(text))
    return None


def check_str(stmts, limit):
    """str() of the returned statements, under the recursion limit the
    call itself succeeded with."""
    want = [''.join(l.value for l in leaves_iter(s)) for s in stmts]
    sys.setrecursionlimit(limit)
    try:
        for s, w in zip(stmts, want):
            if str(s) != w:
                return 'str() of a returned statement is not its leaves'
    except RecursionError:
        return ('str() of a returned statement raises RecursionError under '
                'the recursion limit the call succeeded with')
    return None


REALISTIC = ('select coalesce(sum(case when a > 0 then round(b * (1 + c), 2) '
             'else 0 end), 0) as total from t where x in (select y from u '
             'where z = (select max(w) from v where k in (1, (2), f(g(3)))))')


def _groups(root):
    stack = [root]
    while stack:
        n = stack.pop()
        if getattr(n, 'is_group', False):
            yield n
            stack.extend(n.tokens)


def main():
    faulthandler.enable()
    cell = json.loads(sys.argv[1])
    resource.setrlimit(resource.RLIMIT_CPU, (cell.get('cpu', 300),
                                             cell.get('cpu', 300) + 10))
    default_limit = sys.getrecursionlimit()
    if cell.get('import_limit'):
        # the library is imported while the recursion limit is low; the
        # limit is back to the default before the first call
        sys.setrecursionlimit(cell['import_limit'])
    try:
        import sqlparse
        from sqlparse.exceptions import SQLParseError
    finally:
        sys.setrecursionlimit(default_limit)
    text = build(cell['construct'], cell['depth'])
    entry = cell['entry']
    res = {'outcome': None, 'cause_recursion': False, 'check': None,
           'after': None}
    sys.setrecursionlimit(cell['limit'])
    value = None
    try:
        if entry == 'parse':
            value = sqlparse.parse(text)
        elif entry == 'parsestream':
            value = tuple(sqlparse.parsestream(io.StringIO(text)))
        elif entry == 'split':
            value = sqlparse.split(text)
        else:
            value = sqlparse.format(text, **ENTRIES[entry])
        res['outcome'] = 'ok'
    except SQLParseError as exc:
        res['outcome'] = 'sqlparseerror'
        res['cause_recursion'] = isinstance(exc.__cause__, RecursionError)
    except RecursionError:
        res['outcome'] = 'RecursionError'
    except BaseException as exc:
        res['outcome'] = 'exception:' + type(exc).__name__
    sys.setrecursionlimit(max(default_limit, 1000))
    if res['outcome'] == 'ok':
        try:
            if entry in ('parse', 'parsestream'):
                res['check'] = check_trees(text, value)
                if res['check'] is None:
                    res['check'] = check_str(value, cell['limit'])
                    sys.setrecursionlimit(max(default_limit, 1000))
            elif entry == 'split':
                j = ''.join(value)
                ok = all(isinstance(p, str) and p for p in value) and \
                    ''.join(text.split()) == ''.join(j.split())
                res['check'] = None if ok else 'split pieces lose text'
            elif entry == 'format':
                ok = ''.join(value.split()) == ''.join(text.split())
                res['check'] = None if ok else 'format() altered the text'
        except BaseException as exc:
            res['check'] = 'oracle error %r' % (exc,)
    try:
        after = sqlparse.format('select 1 from t', reindent=True)
        res['after'] = None if after == 'select 1\nfrom t' else repr(after)
        st = sqlparse.parse('select a from b where c = 1')
        if len(st) != 1 or st[0].get_type() != 'SELECT':
            res['after'] = 'later parse() gave %r' % (st,)
        st = sqlparse.parse(REALISTIC)
        if len(st) != 1 or str(st[0]) != REALISTIC \
                or st[0].get_type() != 'SELECT':
            res['after'] = 'later parse() of an ordinary nested query gave ' \
                '%r' % (st,)
        if REALISTIC.replace(' ', '') != ''.join(sqlparse.format(
                REALISTIC, reindent=True).split()):
            res['after'] = 'later format() of an ordinary nested query ' \
                'changed it'
        sp = sqlparse.split('select 1 from t; select 2')
        if sp != ['select 1 from t;', 'select 2']:
            res['after'] = 'later split() gave %r' % ([x[:40] for x in sp],)
    except BaseException as exc:
        res['after'] = 'later call raised %r' % (exc,)
    print(json.dumps(res))


if __name__ == '__main__':
    try:
        main()
    except Exception as exc:     # a problem of the harness, not a verdict
        print(json.dumps({'harness_error': repr(exc)}))
