"""Deterministic oracles shared by several properties.

Every function returns None when the observation satisfies the oracle and a
short description of the deviation otherwise. Only the public surface of
sqlparse is used (parse/split/format/tokenize, node classes, `.tokens`,
`.parent`, `.value`, `.ttype`, keywords.SQL_REGEX and the dictionaries).
"""
import re

import sqlparse
from sqlparse import keywords, lexer, sql, tokens as T

TokenType = type(T.Token)


# --------------------------------------------------------------------------
# C01: the token stream partitions the text
def lex_partition(text, toks):
    off = 0
    n = len(text)
    for i, item in enumerate(toks):
        if not (isinstance(item, tuple) and len(item) == 2):
            return 'token %d is not a (type, value) pair: %r' % (i, item)
        tt, v = item
        if not isinstance(tt, TokenType):
            return 'token %d has a non-token type %r' % (i, tt)
        if not isinstance(v, str):
            return 'token %d value is not str: %r' % (i, v)
        if v == '':
            return 'token %d at offset %d is empty (type %s)' % (i, off, tt)
        if text[off:off + len(v)] != v:
            return ('token %d value %r is not the input at offset %d (%r)'
                    % (i, v[:40], off, text[off:off + len(v) + 5][:40]))
        if tt is T.Error and len(v) != 1:
            return 'Error token %d has length %d' % (i, len(v))
        off += len(v)
    if off != n:
        return 'tokens cover %d of %d characters' % (off, n)
    return None


_ref_rules = None
_ref_src = None


def reference_rules():
    """The rule table compiled independently from the public SQL_REGEX."""
    global _ref_rules, _ref_src
    src = [(rx, tt) for rx, tt in keywords.SQL_REGEX]
    if _ref_rules is None or src != _ref_src:
        _ref_src = src
        _ref_rules = [(re.compile(rx, re.IGNORECASE | re.UNICODE), tt)
                      for rx, tt in src]
    return _ref_rules


def first_rule_at(text, pos):
    for idx, (rx, tt) in enumerate(reference_rules()):
        m = rx.match(text, pos)
        if m:
            return idx, tt, m
    return None, None, None


def error_tokens_justified(text, toks, hist=None):
    """Error tokens appear exactly where no rule of the table matches.
    Also fills a rule-hit histogram."""
    off = 0
    for tt, v in toks:
        idx, rtt, m = first_rule_at(text, off)
        if tt is T.Error:
            if idx is not None:
                return ('Error token %r at offset %d although rule %d (%s) '
                        'matches there' % (v, off, idx, rtt))
            if hist is not None:
                hist['error'] = hist.get('error', 0) + 1
        else:
            if idx is None:
                return ('token %r (%s) at offset %d but no rule of '
                        'SQL_REGEX matches there' % (v[:30], tt, off))
            if hist is not None:
                hist[idx] = hist.get(idx, 0) + 1
        off += len(v)
    return None


# --------------------------------------------------------------------------
# tree helpers (iterative: never recurse, nesting may be deep)
def walk(root):
    """Yield (node, depth, parent) over .tokens, pre-order, iteratively."""
    stack = [(root, 0, None)]
    while stack:
        node, depth, parent = stack.pop()
        yield node, depth, parent
        if getattr(node, 'is_group', False):
            kids = node.tokens
            for k in reversed(kids):
                stack.append((k, depth + 1, node))


def leaves(root):
    out = []
    stack = [root]
    while stack:
        node = stack.pop()
        if getattr(node, 'is_group', False):
            stack.extend(reversed(node.tokens))
        else:
            out.append(node)
    return out


def node_text(node):
    return ''.join(l.value for l in leaves(node))


def shape(node, keep_ws=False):
    """Nested (class, children...) signature; leaves by token type."""
    # iterative post-order
    result = {}
    stack = [(node, False)]
    while stack:
        n, done = stack.pop()
        if not getattr(n, 'is_group', False):
            result[id(n)] = str(n.ttype)
            continue
        if done:
            kids = [result[id(k)] for k in n.tokens
                    if keep_ws or getattr(k, 'is_group', False)
                    or not k.is_whitespace]
            result[id(n)] = (type(n).__name__, tuple(kids))
        else:
            stack.append((n, True))
            for k in n.tokens:
                stack.append((k, False))
    return result[id(node)]


def dump_tree(node):
    """(class name, ttype, value) pre-order list: the equality used when two
    front ends must give the same tree."""
    return [(type(n).__name__, str(n.ttype), n.value, d)
            for n, d, _ in walk(node)]


# --------------------------------------------------------------------------
# C02: parse() is text preserving
def parse_roundtrip(text, stmts):
    joined = ''.join(str(s) for s in stmts)
    if not text.startswith(joined):
        # locate first difference
        k = 0
        m = min(len(text), len(joined))
        while k < m and text[k] == joined[k]:
            k += 1
        return ('joined statements differ from the input at offset %d: '
                'input %r, got %r' % (k, text[k:k + 20], joined[k:k + 20]))
    rest = text[len(joined):]
    if rest and not rest.isspace():
        return 'non-whitespace input tail lost: %r' % rest[:40]
    for s in stmts:
        for node, depth, parent in walk(s):
            if getattr(node, 'is_group', False):
                want = node_text(node)
                got = str(node)
                if got != want:
                    return ('str(%s) = %r differs from its leaves %r'
                            % (type(node).__name__, got[:60], want[:60]))
    return None


# --------------------------------------------------------------------------
# C03: well-formed tree
def retype_ok(leaf_tt, lexed_tt):
    if leaf_tt is lexed_tt:
        return True
    if leaf_tt is T.Operator and (lexed_tt is T.Wildcard
                                  or lexed_tt in T.Operator):
        return True
    return False


def tree_wellformed(stmts, lexed=None):
    """T1 of DESIGN §4 C03. `lexed` = list of (ttype, value) recorded from
    the lexer during the same call (or None)."""
    seen = set()
    all_leaves = []
    for s in stmts:
        if s.parent is not None:
            return 'statement has a parent: %r' % (s.parent,)
        if not isinstance(s, sql.Statement):
            return 'top-level node is %s, not Statement' % type(s).__name__
        nnodes = 0
        for node, depth, parent in walk(s):
            nnodes += 1
            if id(node) in seen:
                return '%s %r occurs twice in the tree' % (
                    type(node).__name__, node.value[:30])
            seen.add(id(node))
            if parent is not None and node.parent is not parent:
                return ('parent of %s %r is %s, but it is a child of %s %r'
                        % (type(node).__name__, node.value[:30],
                           type(node.parent).__name__
                           if node.parent is not None else None,
                           type(parent).__name__, parent.value[:30]))
            if getattr(node, 'is_group', False):
                if not isinstance(node, sql.TokenList):
                    return 'group node of class %s' % type(node).__name__
                if len(node.tokens) == 0:
                    return 'empty group %s' % type(node).__name__
                if node.ttype is not None:
                    return 'group %s has ttype %s' % (
                        type(node).__name__, node.ttype)
                txt = node_text(node)
                if node.value != txt:
                    return ('cached value of %s is %r but its text is %r'
                            % (type(node).__name__, node.value[:60],
                               txt[:60]))
            else:
                if not isinstance(node.ttype, TokenType):
                    return 'leaf %r has ttype %r' % (node.value[:30],
                                                     node.ttype)
                all_leaves.append(node)
    if lexed is not None:
        # leaves = lexer tokens up to a dropped whitespace-only tail
        if len(all_leaves) > len(lexed):
            return 'tree has %d leaves, lexer produced %d tokens' % (
                len(all_leaves), len(lexed))
        for i, leaf in enumerate(all_leaves):
            ltt, lv = lexed[i]
            if leaf.value != lv:
                return ('leaf %d value %r differs from lexer token %r'
                        % (i, leaf.value[:40], lv[:40]))
            if not retype_ok(leaf.ttype, ltt):
                return ('leaf %d %r has type %s, lexer gave %s'
                        % (i, leaf.value[:30], leaf.ttype, ltt))
        for ltt, lv in lexed[len(all_leaves):]:
            if ltt not in T.Whitespace:
                return ('lexer token %r (%s) after the last statement is '
                        'missing from the tree' % (lv[:30], ltt))
    return None


def _is_comment(tok):
    return isinstance(tok, sql.Comment) or (
        tok.ttype is not None and tok.ttype in T.Comment)


def navigation_agrees(stmt, rng, max_offsets=400, max_groups=60):
    """T2 of DESIGN §4 C03: navigation helpers vs the structure as seen
    top-down through .tokens. Returns (error, number of helper calls)."""
    calls = 0
    nodes = list(walk(stmt))
    groups = [n for n, d, p in nodes if getattr(n, 'is_group', False)]
    if len(groups) > max_groups:
        groups = [stmt] + rng.sample(groups[1:], max_groups - 1)
    for g in groups:
        toks = g.tokens
        n = len(toks)
        idxs = range(n) if n <= 24 else sorted(rng.sample(range(n), 24))
        for i in idxs:
            c = toks[i]
            calls += 1
            try:
                got = g.token_index(c)
            except ValueError:
                return 'token_index raised for child %d of %s' % (
                    i, type(g).__name__), calls
            # token_index uses ==, which is identity for tokens
            if got != i:
                return 'token_index(child %d) = %d in %s' % (
                    i, got, type(g).__name__), calls
            # documented defaults: skip_ws=True, skip_cm=False
            calls += 2
            dn = g.token_next(i)
            en = g.token_next(i, skip_ws=True, skip_cm=False)
            dp = g.token_prev(i)
            ep = g.token_prev(i, skip_ws=True, skip_cm=False)
            if dn[0] != en[0] or dp[0] != ep[0]:
                return ('token_next/token_prev(%d) with default arguments '
                        'gave %r/%r, with skip_ws=True, skip_cm=False %r/%r '
                        'in %s %r' % (i, dn[0], dp[0], en[0], ep[0],
                                      type(g).__name__, g.value[:40])), calls
            # with a start hint (an index or an earlier sibling)
            if i > 0:
                j = rng.randrange(0, i + 1)
                calls += 2
                try:
                    got = g.token_index(c, j)
                    got2 = g.token_index(c, toks[j])
                except ValueError:
                    return ('token_index(child %d, start=%d) raised in %s'
                            % (i, j, type(g).__name__)), calls
                if got != i or got2 != i:
                    return ('token_index(child %d, start=%d / start=sibling) '
                            '= %d / %d in %s' % (i, j, got, got2,
                                                 type(g).__name__)), calls
            for skip_ws in (True, False):
                for skip_cm in (True, False):
                    def skipped(t):
                        return (skip_ws and t.is_whitespace) or (
                            skip_cm and _is_comment(t))
                    # next
                    want = (None, None)
                    for j in range(i + 1, n):
                        if not skipped(toks[j]):
                            want = (j, toks[j])
                            break
                    got = g.token_next(i, skip_ws=skip_ws, skip_cm=skip_cm)
                    calls += 1
                    if got[0] != want[0] or got[1] is not want[1]:
                        return ('token_next(%d, skip_ws=%s, skip_cm=%s) in '
                                '%s %r gave index %r, naive scan %r'
                                % (i, skip_ws, skip_cm, type(g).__name__,
                                   g.value[:40], got[0], want[0])), calls
                    want = (None, None)
                    for j in range(i - 1, -1, -1):
                        if not skipped(toks[j]):
                            want = (j, toks[j])
                            break
                    got = g.token_prev(i, skip_ws=skip_ws, skip_cm=skip_cm)
                    calls += 1
                    if got[0] != want[0] or got[1] is not want[1]:
                        return ('token_prev(%d, skip_ws=%s, skip_cm=%s) in '
                                '%s %r gave index %r, naive scan %r'
                                % (i, skip_ws, skip_cm, type(g).__name__,
                                   g.value[:40], got[0], want[0])), calls
    # token_first: documented defaults skip_ws=True, skip_cm=False
    for g in groups[:20]:
        calls += 3
        for kw, sw, sc in (({}, True, False), ({'skip_ws': False}, False,
                                               False),
                           ({'skip_cm': True}, True, True)):
            want = None
            for t in g.tokens:
                if not ((sw and t.is_whitespace) or (sc and _is_comment(t))):
                    want = t
                    break
            got = g.token_first(**kw)
            if got is not want:
                return ('token_first(%r) in %s %r gave %r, naive scan %r'
                        % (kw, type(g).__name__, g.value[:40], got,
                           want)), calls
    # offsets
    lv = leaves(stmt)
    total = sum(len(l.value) for l in lv)
    if total <= max_offsets:
        offsets = range(total + 1)
    else:
        offsets = sorted(set(rng.randrange(total) for _ in range(64))
                         | {0, total - 1, total})
    spans = []
    pos = 0
    for l in lv:
        spans.append((pos, pos + len(l.value), l))
        pos += len(l.value)
    import bisect
    starts = [s for s, e, l in spans]
    for o in offsets:
        got = stmt.get_token_at_offset(o)
        calls += 1
        if o >= total:
            want = None
        else:
            k = bisect.bisect_right(starts, o) - 1
            # skip empty leaves (cannot exist, but be safe)
            while spans[k][1] <= o:
                k += 1
            want = spans[k][2]
        if got is not want:
            return ('get_token_at_offset(%d) gave %r, the leaf covering it '
                    'is %r' % (o, got, want)), calls
    # the same helper on nested groups, with offsets relative to the group
    for g in groups[1:12]:
        glv = leaves(g)
        gtotal = sum(len(l.value) for l in glv)
        for o in sorted({0, gtotal // 2, max(gtotal - 1, 0), gtotal}):
            got = g.get_token_at_offset(o)
            calls += 1
            want = None
            acc = 0
            for l in glv:
                if acc <= o < acc + len(l.value):
                    want = l
                    break
                acc += len(l.value)
            if got is not want:
                return ('%s %r .get_token_at_offset(%d) gave %r, the leaf '
                        'covering it is %r' % (type(g).__name__, g.value[:30],
                                               o, got, want)), calls
    # ancestry
    anc = {}   # id(node) -> list of ancestors top-down
    stack = [(stmt, [])]
    order = []
    while stack:
        node, path = stack.pop()
        anc[id(node)] = path
        order.append(node)
        if getattr(node, 'is_group', False):
            for k in node.tokens:
                stack.append((k, path + [node]))
    sample = order if len(order) <= 80 else rng.sample(order, 80)
    classes = [sql.Parenthesis, sql.Function, sql.Identifier, sql.Where,
               sql.IdentifierList, sql.Case, sql.Comparison, sql.Statement]
    for node in sample:
        path = anc[id(node)]
        for cls in classes:
            want = any(isinstance(a, cls) for a in path)
            calls += 1
            if node.within(cls) != want:
                return ('%r.within(%s) = %s, structure says %s'
                        % (node, cls.__name__, not want, want)), calls
        others = rng.sample(groups, min(len(groups), 6))
        if getattr(node, 'is_group', False):
            others.append(node)        # no node is its own ancestor / child
        for other in others + path[-2:]:
            want_anc = any(a is other for a in path)
            want_child = bool(path) and path[-1] is other
            calls += 2
            if bool(node.has_ancestor(other)) != want_anc:
                return ('%r.has_ancestor(%r) = %s, structure says %s'
                        % (node, other, not want_anc, want_anc)), calls
            if bool(node.is_child_of(other)) != want_child:
                return ('%r.is_child_of(%r) = %s, structure says %s'
                        % (node, other, not want_child, want_child)), calls
    return None, calls


# --------------------------------------------------------------------------
# C04: split partitions the text
def split_partition(text, pieces):
    j = 0
    n = len(text)
    for k, p in enumerate(pieces):
        if not isinstance(p, str):
            return 'piece %d is not a str' % k
        if p == '':
            return 'piece %d is empty' % k
        if p != p.strip():
            return 'piece %d is not stripped: %r' % (k, p[:40])
        while j < n and text[j].isspace():
            j += 1
        if not text.startswith(p, j):
            return ('piece %d %r does not occur at offset %d (input there: '
                    '%r)' % (k, p[:40], j, text[j:j + 40]))
        j += len(p)
    rest = text[j:]
    if rest and not rest.isspace():
        return 'non-blank text after the last piece: %r' % rest[:40]
    return None


# --------------------------------------------------------------------------
# significant-token signature (C06, C08, C10)
def lex(text):
    return list(lexer.tokenize(text))


_WS_RUN = re.compile(r'\s+')
_TRAIL = re.compile(r'[ \t]+(?=\r\n|\r|\n|$)')


def norm_comment(v):
    """Comments are compared modulo per-line trailing blanks and line-end
    spelling (the serializer's documented normalisation outside quotes)."""
    v = v.replace('\r\n', '\n').replace('\r', '\n')
    v = re.sub(r'[ \t]+\n', '\n', v)
    return v.rstrip(' \t\n')


def collapse_keyword_ws(v):
    """Whitespace runs between the words of a keyword token; a quoted
    literal inside the token (AT TIME ZONE 'zone') stays byte-identical."""
    q = v.find("'")
    if q < 0:
        return _WS_RUN.sub(' ', v)
    return _WS_RUN.sub(' ', v[:q]) + v[q:]


def sig(text):
    out = []
    for tt, v in lexer.tokenize(text):
        if tt in T.Whitespace:
            continue
        if tt in T.Comment:
            v = norm_comment(v)
        elif (tt in T.Keyword or tt in T.Operator or tt is T.Name.Builtin) \
                and not v.isalnum():
            # multi-word keywords: their inner whitespace is whitespace
            v = collapse_keyword_ws(v)
        out.append((tt, v))
    return out
