"""Generators for format() option sets (valid and invalid)."""
import math

BOOL_LAYOUT = ['reindent', 'reindent_aligned', 'strip_whitespace',
               'use_space_around_operators', 'indent_tabs',
               'indent_after_first', 'indent_columns', 'comma_first',
               'compact']
CASES = ['upper', 'lower', 'capitalize']


def layout_options(rng, p=0.3):
    """Random layout option set (C06/C10)."""
    o = {}
    for name in BOOL_LAYOUT:
        if rng.random() < p:
            o[name] = True
        elif rng.random() < 0.05:
            o[name] = False
    if rng.random() < 0.3:
        o['indent_width'] = rng.choice([1, 2, 3, 4, 8])
    if rng.random() < 0.3:
        o['wrap_after'] = rng.choice([0, 1, 5, 20, 80])
    return o


def pairwise_layout_sets():
    """A deterministic base of option sets covering every pair of boolean
    layout flags in all four value combinations, plus the empty set."""
    sets = [{}]
    n = len(BOOL_LAYOUT)
    for i in range(n):
        sets.append({BOOL_LAYOUT[i]: True})
    for i in range(n):
        for j in range(i + 1, n):
            sets.append({BOOL_LAYOUT[i]: True, BOOL_LAYOUT[j]: True})
    sets.append({name: True for name in BOOL_LAYOUT})
    return sets


def targeted_options(rng):
    o = {}
    x = rng.random()
    if x < 0.25:
        o['strip_comments'] = True
    elif x < 0.45:
        o['keyword_case'] = rng.choice(CASES)
    elif x < 0.65:
        o['identifier_case'] = rng.choice(CASES)
    elif x < 0.85:
        o['truncate_strings'] = rng.choice([2, 3, 5, 10, 40])
        if rng.random() < 0.4:
            o['truncate_char'] = rng.choice(['...', '~', '[cut]', '', '…'])
    else:
        if rng.random() < 0.5:
            o['strip_comments'] = True
        if rng.random() < 0.5:
            o['keyword_case'] = rng.choice(CASES)
        if rng.random() < 0.5:
            o['identifier_case'] = rng.choice(CASES)
        if rng.random() < 0.5:
            o['truncate_strings'] = rng.choice([2, 3, 5, 10, 40])
    return o


def any_valid_options(rng):
    """Every documented option (all that validate_options knows except the
    not-implemented right_margin) with random valid values."""
    o = layout_options(rng, p=0.25)
    if rng.random() < 0.5:
        o.update(targeted_options(rng))
    if rng.random() < 0.2:
        o['output_format'] = rng.choice(['sql', 'python', 'php'])
    if rng.random() < 0.1:
        o['truncate_strings'] = rng.choice([2, 7, 1000])
    if rng.random() < 0.05:
        o['indent_width'] = rng.choice([1, 16, 40])
    if rng.random() < 0.05:
        o['wrap_after'] = rng.choice([2, 40, 500])
    return o


INVALID = {
    'keyword_case': ['UPPER', 'title', 1, True, '', 'Upper', ['upper']],
    'identifier_case': ['LOWER', 'camel', 0, False, '', ('lower',)],
    'output_format': ['java', 1, '', 'PYTHON', True],
    'strip_comments': ['yes', 2, -1, None, [], 'true', 1.5, 'True'],
    'use_space_around_operators': ['yes', 2, None, 'false', []],
    'strip_whitespace': ['yes', 2, None, 'x', {}],
    'reindent': ['yes', 2, None, 'x', 0.5],
    'reindent_aligned': ['yes', 2, None, 'x', 0.5],
    'indent_after_first': ['yes', 2, None, 'x'],
    'indent_tabs': ['yes', 2, None, '\t'],
    'indent_columns': ['yes', 2, None, 'x'],
    'comma_first': ['yes', 2, None, 'x'],
    'compact': ['yes', 2, None, 'x'],
    'truncate_strings': [1, 0, -5, 'abc', [], '', float('nan'),
                         float('inf'), 1.5, {}],
    'indent_width': [0, -1, 'x', None, '', float('nan'), float('inf'),
                     float('-inf'), [], 0.5],
    'wrap_after': [-1, 'x', None, '', float('nan'), float('inf'), [], -0.0
                   - 5],
    'truncate_char': [5, None, 1.5, ['x'], b'..', True],
}


def invalid_option(rng):
    """(options dict, name of the invalid option)."""
    name = rng.choice(sorted(INVALID))
    val = rng.choice(INVALID[name])
    o = {}
    if rng.random() < 0.5:
        o = layout_options(rng, p=0.15)
        o.pop(name, None)
    o[name] = val
    if name == 'truncate_char':
        o['truncate_strings'] = rng.choice([2, 5])
    # 1.5 for truncate_strings is accepted by int(): keep only the truly
    # invalid ones
    if name == 'truncate_strings' and val == 1.5:
        o[name] = 1
    if name in ('indent_width',) and val == 0.5:
        o[name] = 0
    return o, name


def opts_key(o):
    return tuple(sorted((k, repr(v)) for k, v in o.items()))
