"""One shard of one property check, run as its own process.

usage: python -m vlib.worker PROP TIER SEED SHARD NSHARDS BUDGET_S OUT
"""
import faulthandler
import importlib
import json
import sys
import traceback

from vlib import common, coverage, findings


def main(argv):
    prop, tier, seed, shard, nshards, budget, out = argv
    seed, shard, nshards, budget = int(seed), int(shard), int(nshards), \
        float(budget)
    faulthandler.enable()
    common.assert_repo_sqlparse()
    mod = importlib.import_module('vlib.props.' + prop.lower())
    rec = common.Recorder(prop, shard)
    ctx = common.Ctx(prop, tier, seed, shard, nshards, budget, rec)
    ctx.findings = findings.Findings(prop)
    cov = shard == 0 and coverage.start()   # one shard carries the probe
    try:
        mod.shard(ctx)
    except BaseException as exc:  # a crash of the harness itself
        rec.inconclusive_('shard %d harness error: %s' % (
            shard, ''.join(traceback.format_exception_only(type(exc), exc))
            .strip()))
        rec.note(traceback.format_exc()[-1500:])
    data = rec.dump()
    if cov:
        coverage.stop()
        try:
            data['anchor_coverage'] = coverage.report(prop)
        except Exception as exc:
            data['anchor_coverage'] = {'error': repr(exc)}
    with open(out, 'w') as f:
        json.dump(data, f, ensure_ascii=True)
    return 0


if __name__ == '__main__':
    sys.exit(main(sys.argv[1:]))
