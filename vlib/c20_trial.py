"""C20 helper processes.

  python -m vlib.c20_trial ref
      fresh process: print the reference observations of the probe set.
  python -m vlib.c20_trial first '<json: threads, seed, inject>'
      fresh process: N threads released by a barrier make the process's
      first sqlparse calls; LINE events inside sqlparse/lexer.py inject
      yields; M-INIT checks every instance handed out.
"""
import hashlib
import json
import random
import sys
import threading
import time

PROBES = [
    ('parse', 'select a, b as c from t1 join t2 on t1.x = t2.y where '
              'a = 1 order by b desc', {}),
    ('parse', 'FOOBAR x; create or replace view v as select 1; '
              'insert into t values (1, \'a\')', {}),
    ('parse', 'begin if a then x := 1; end if; end', {}),
    ('split', 'select 1; select \'a;b\'; /* c; */ select 3 -- x;\n;', {}),
    ('split', 'create function f() returns int begin declare x int; '
              'select 1; end; select 2;', {}),
    ('format', 'select a,b from t where x=1 and y in (select z from u)',
     {'reindent': True, 'keyword_case': 'upper'}),
    ('format', 'select a, case when b then 1 else 2 end from t -- c\n',
     {'reindent_aligned': True, 'strip_comments': True}),
    ('format', 'select * from foo; select * from bar where a = \'xyzxyz\'',
     {'output_format': 'python', 'truncate_strings': 3}),
    ('format', 'select * from foo; select 1\nfrom t',
     {'output_format': 'php', 'reindent': True}),
    ('format', 'SELECT Foo, "Bar" from T where zork = 1',
     {'identifier_case': 'lower', 'use_space_around_operators': True,
      'strip_whitespace': True}),
    ('tokens', 'select zork, FOOBAR, @v, \x01 from t where a <=> 2', {}),
    ('format', 'select a+b, c>=1 from t where d=2 and e||f<>g',
     {'use_space_around_operators': True}),
    ('format', 'select a, b from t where x in (1,2) -- c\norder by 1',
     {'strip_comments': True}),
    ('process', 'recursionlimit+switchinterval', {}),
    ('format', 'select a, (select b from u where c = 1) from t where d = 2',
     {'reindent_aligned': True, 'indent_tabs': True}),
    ('parsebytes', 'select \u00e9t\u00e9, \u4e2d from t where n = \'\u00fc\'',
     {}),
    ('format', 'select \'\' as e, \'abcdefghij\' as v from t',
     {'truncate_strings': 4}),
    ('split', 'create trigger tr before insert on t for each row begin '
              'set NEW.end = 1; select r.begin into v; set x = if(a, 1, 2); '
              'end; select t.loop from t; select 3;', {}),
]


def dump(stmt):
    out = []
    stack = [(stmt, 0)]
    while stack:
        n, d = stack.pop()
        out.append((type(n).__name__, str(n.ttype), n.value, d))
        if getattr(n, 'is_group', False):
            for k in reversed(n.tokens):
                stack.append((k, d + 1))
    return out


def observe(sqlparse, probe):
    api, text, opts = probe
    try:
        if api == 'parse':
            return [dump(s) + [s.get_type()] for s in sqlparse.parse(text)]
        if api == 'split':
            return sqlparse.split(text)
        if api == 'format':
            return sqlparse.format(text, **dict(opts))
        if api == 'tokens':
            return [(str(tt), v) for tt, v in sqlparse.lexer.tokenize(text)]
        if api == 'parsebytes':
            # UTF-8 bytes without an encoding argument
            return [dump(s) for s in sqlparse.parse(text.encode('utf-8'))]
        if api == 'process':
            # process-wide settings the library has no business changing
            return [sys.getrecursionlimit()]
    except Exception as exc:
        return 'EXC ' + type(exc).__name__ + ': ' + str(exc)[:80]


def observe_all(sqlparse, order=None):
    """Observations indexed like PROBES; `order` = the sequence in which
    the probes are actually run (default: as listed)."""
    out = [None] * len(PROBES)
    for i in (order if order is not None else range(len(PROBES))):
        out[i] = observe(sqlparse, PROBES[i])
    return json.loads(json.dumps(out))


def cmd_ref(reverse=False):
    import sqlparse
    order = list(range(len(PROBES)))
    if reverse:
        order.reverse()
    print(json.dumps({'obs': observe_all(sqlparse, order),
                      'file': sqlparse.__file__}))


# ---------------------------------------------------------------------------
INIT_PROBE = 'select FOOBAR, x from t where a like \'b\' order by 1 -- c'


def cmd_first(cfg):
    nthreads = cfg['threads']
    rng = random.Random(cfg['seed'])
    inject = cfg.get('inject', 'line')
    sys.setswitchinterval(1e-6)
    import sqlparse
    from sqlparse import lexer, keywords
    violations = []
    events = []
    ev_lock = None     # list.append is atomic under the GIL

    # reference: a private, fully initialised lexer (does not touch the
    # process-wide default instance)
    priv = lexer.Lexer()
    priv.default_initialization()
    want_tokens = list(priv.get_tokens(INIT_PROBE))
    first_state = lexer.Lexer._default_instance
    nrules = len(keywords.SQL_REGEX)

    # M-INIT: at return of get_default_instance, in the calling thread
    # (best effort: if the hook point does not exist any more, only the
    # per-thread results are judged)
    raw = lexer.Lexer.__dict__.get('get_default_instance')
    orig = getattr(raw, '__func__', None)
    hook_ok = isinstance(raw, classmethod) and orig is not None
    init_checks = [0]

    def get_default_instance(cls):
        inst = orig(cls)
        init_checks[0] += 1
        try:
            got = list(inst.get_tokens(INIT_PROBE))
        except Exception as exc:
            got = 'EXC %r' % (exc,)
        if got != want_tokens:
            violations.append(
                'thread %s received an incompletely initialised lexer: '
                'probe tokenizes to %r... (rules=%s dictionaries=%s)' % (
                    threading.current_thread().name, str(got)[:120],
                    len(getattr(inst, '_SQL_REGEX', []) or []),
                    len(getattr(inst, '_keywords', []) or [])))
        else:
            r = getattr(inst, '_SQL_REGEX', None)
            k = getattr(inst, '_keywords', None)
            if r is not None and len(r) != nrules:
                violations.append('instance has %d compiled rules, table '
                                  'has %d' % (len(r), nrules))
            if k is not None and len(k) != 9:
                violations.append('instance has %d dictionaries' % len(k))
        return inst
    if hook_ok:
        lexer.Lexer.get_default_instance = classmethod(get_default_instance)

    # schedule perturbation: LINE events in lexer.py
    mon = getattr(sys, 'monitoring', None)
    tool = None
    sleeps = cfg.get('sleep_p', 0.3)
    delays = [0, 0, 0, 0.0002, 0.001]
    thread_rngs = {}
    if mon is not None and inject == 'line':
        tool = 3
        try:
            mon.use_tool_id(tool, 'verif-c20')
        except ValueError:
            tool = None
    if tool is not None:
        names = ('get_default_instance', 'default_initialization', 'clear',
                 'set_SQL_REGEX', 'add_keywords')
        codes = []
        for n in names:
            f = lexer.Lexer.__dict__.get(n)
            f = getattr(f, '__func__', f)
            if f is not None and hasattr(f, '__code__'):
                codes.append(f.__code__)
        if hook_ok:
            codes.append(orig.__code__)

        def on_line(code, line):
            name = threading.current_thread().name
            events.append((name, line))
            r = thread_rngs.get(name)
            if r is None:
                r = thread_rngs[name] = random.Random(
                    '%s-%s' % (cfg['seed'], name))
            if r.random() < sleeps:
                time.sleep(r.choice(delays))
        mon.register_callback(tool, mon.events.LINE, on_line)
        for c in set(codes):
            mon.set_local_events(tool, c, mon.events.LINE)

    barrier = threading.Barrier(nthreads)
    results = [None] * nthreads
    probes = [PROBES[i % len(PROBES)] for i in range(nthreads)]
    if cfg.get('same_input'):
        probes = [PROBES[0]] * nthreads

    def work(i):
        barrier.wait()
        results[i] = json.loads(json.dumps(observe(sqlparse, probes[i])))
    threads = [threading.Thread(target=work, args=(i,), name='T%d' % i)
               for i in range(nthreads)]
    for t in threads:
        t.start()
    for t in threads:
        t.join(60)
    hung = [t.name for t in threads if t.is_alive()]
    if tool is not None:
        mon.register_callback(tool, mon.events.LINE, None)
        mon.free_tool_id(tool)
    # compare with the single-threaded answer (now the lexer is initialised)
    for i in range(nthreads):
        want = json.loads(json.dumps(observe(sqlparse, probes[i])))
        if results[i] != want:
            violations.append('thread T%d result for %s(%r) differs from the '
                              'single-threaded result: %s vs %s' % (
                                  i, probes[i][0], probes[i][1][:30],
                                  str(results[i])[:100], str(want)[:100]))
    sig = hashlib.blake2b(repr(events).encode(), digest_size=8).hexdigest()
    print(json.dumps({
        'violations': violations[:5], 'hung': hung, 'events': len(events),
        'interleaving': sig, 'init_checks': init_checks[0],
        'threads_seen': len({n for n, _ in events}),
        'pristine_before': first_state is None, 'minit_hook': hook_ok,
        'switches': sum(1 for a, b in zip(events, events[1:])
                        if a[0] != b[0]),
        'final_obs': observe_all(sqlparse),
    }))


def cmd_primed(cfg):
    """Fresh process: a few priming calls first (so that whatever the
    library caches on first use is created under unusual options), then the
    probe set."""
    import sqlparse
    for api, text, opts in cfg['calls']:
        old = sys.getrecursionlimit()
        try:
            if opts.pop('__low_recursion_limit__', False):
                sys.setrecursionlimit(150)
            if api == 'format':
                sqlparse.format(text, **opts)
            elif api == 'parse':
                sqlparse.parse(text)
            else:
                sqlparse.split(text)
        except Exception:
            pass
        finally:
            sys.setrecursionlimit(old)
    print(json.dumps({'obs': observe_all(sqlparse)}))


if __name__ == '__main__':
    try:
        if sys.argv[1] == 'primed':
            cmd_primed(json.loads(sys.argv[2]))
        elif sys.argv[1] == 'ref':
            cmd_ref(reverse=len(sys.argv) > 2 and sys.argv[2] == 'reverse')
        elif sys.argv[1] == 'first':
            cmd_first(json.loads(sys.argv[2]))
    except Exception as exc:      # a problem of the harness, not a verdict
        import traceback
        print(json.dumps({'harness_error': traceback.format_exc()[-800:]}))
