"""Known findings: loader and attribution helper.

known_findings.json is committed and never written at run time. An entry:
  {"id": "...", "property": "C17", "status": "open" | "fixed",
   "commit": "<sha of the fix: commit>" (fixed only),
   "mechanism": "...", "trigger": "...", "witnesses": [ {...}, ... ]}

* open  + witness still fails  -> the check prints `KNOWN-FINDING: ...`.
* fixed                        -> suppresses nothing; its witnesses are
                                  regression cases (failure = VIOLATION).
Workload violations are attributed to an open finding only by the property
module (trigger predicate on the case + the violation kind the mechanism
produces + where possible a neutralised re-run); `attr()` merely refuses
attribution to anything the file does not list as open.
"""
import json
import os

from vlib import common

PATH = os.path.join(common.VERIF, 'known_findings.json')


class Findings:
    def __init__(self, prop):
        self.prop = prop
        try:
            with open(PATH) as f:
                data = json.load(f)
        except FileNotFoundError:
            data = {'findings': []}
        self.entries = [e for e in data.get('findings', [])
                        if prop in _props(e)]
        self.open = {e['id']: e for e in self.entries
                     if e.get('status') == 'open'}
        self.fixed = {e['id']: e for e in self.entries
                      if e.get('status') == 'fixed'}

    def attr(self, fid):
        """Return fid if it is an open finding of this property, else None
        (so the violation is reported as new)."""
        return fid if fid in self.open else None


def _props(e):
    p = e.get('property')
    return p if isinstance(p, list) else [p]
