"""Shared plumbing: the per-shard recorder and small helpers.

Everything a shard observes goes through a Recorder; the runner merges the
recorders of all shards into one evidence file.
"""
import hashlib
import json
import os
import random
import sys
import time

REPO = os.environ.get('VERIF_REPO', '/repo')
VERIF = os.path.dirname(os.path.dirname(os.path.abspath(__file__)))


def assert_repo_sqlparse():
    """The checks must exercise the working tree of /repo, nothing else."""
    import sqlparse
    path = os.path.realpath(sqlparse.__file__)
    want = os.path.realpath(os.path.join(REPO, 'sqlparse'))
    if not path.startswith(want + os.sep):
        raise SystemExit('FATAL: sqlparse imported from %s, expected %s'
                         % (path, want))
    return sqlparse


def h64(obj):
    """Stable 64-bit hash of a (nested) python value."""
    if not isinstance(obj, (str, bytes)):
        obj = repr(obj)
    if isinstance(obj, str):
        obj = obj.encode('utf-8', 'surrogatepass')
    return hashlib.blake2b(obj, digest_size=8).hexdigest()


def derive_seed(*parts):
    return int(hashlib.blake2b(repr(parts).encode(), digest_size=8)
               .hexdigest(), 16)


def jsonable(x, depth=0):
    """Make x JSON-serialisable (lone surrogates survive via ensure_ascii)."""
    if depth > 8:
        return repr(x)
    if x is None or isinstance(x, (bool, int, str)):
        return x
    if isinstance(x, float):
        if x != x or x in (float('inf'), float('-inf')):
            return {'__float__': repr(x)}
        return x
    if isinstance(x, bytes):
        return {'__bytes__': x.hex()}
    if isinstance(x, dict):
        return {str(k): jsonable(v, depth + 1) for k, v in x.items()}
    if isinstance(x, (list, tuple, set, frozenset)):
        return [jsonable(v, depth + 1) for v in x]
    return repr(x)


def unjson(x):
    if isinstance(x, dict):
        if set(x) == {'__bytes__'}:
            return bytes.fromhex(x['__bytes__'])
        if set(x) == {'__float__'}:
            return float(x['__float__'])
        return {k: unjson(v) for k, v in x.items()}
    if isinstance(x, list):
        return [unjson(v) for v in x]
    return x


def clip(s, n=300):
    s = s if isinstance(s, str) else repr(s)
    return s if len(s) <= n else s[:n] + '...<%d more>' % (len(s) - n)


class Recorder:
    MAX_SIGS = 100000
    MAX_VIOL = 40

    def __init__(self, prop, shard=0):
        self.prop = prop
        self.shard = shard
        self.evaluations = 0
        self.sigs = set()
        self.samples = []
        self.counters = {}
        self.hists = {}
        self.monitors = {}
        self.violations = []      # new (unattributed) violations
        self.known_hits = {}      # finding id -> count
        self.known_samples = {}   # finding id -> one case
        self._vkeys = set()
        self.violation_total = 0
        self.inconclusive = []
        self.notes = []
        self._sample_rng = random.Random(12345 + shard)
        self._nsample_seen = 0

    # --- counting -------------------------------------------------------
    def case(self, n=1):
        self.evaluations += n

    def nontrivial(self, sig):
        if len(self.sigs) < self.MAX_SIGS:
            try:
                self.sigs.add(h64(sig))
            except RecursionError:
                # repr() of a very deeply nested signature
                self.sigs.add(h64(('deep-signature', self.evaluations)))

    def count(self, name, n=1):
        self.counters[name] = self.counters.get(name, 0) + n

    def hist(self, name, key, n=1):
        d = self.hists.setdefault(name, {})
        key = str(key)
        if key in d or len(d) < 400:
            d[key] = d.get(key, 0) + n
        else:
            d['<other>'] = d.get('<other>', 0) + n

    def monitor(self, name, n=1):
        """A deciding monitor evaluated its oracle n times."""
        self.monitors[name] = self.monitors.get(name, 0) + n

    def sample(self, obj, k=4):
        """Reservoir of k real cases."""
        self._nsample_seen += 1
        obj = jsonable(obj)
        if len(self.samples) < k:
            self.samples.append(obj)
        else:
            j = self._sample_rng.randrange(self._nsample_seen)
            if j < k:
                self.samples[j] = obj

    def note(self, text):
        if text not in self.notes and len(self.notes) < 50:
            self.notes.append(text)

    # --- verdict material ----------------------------------------------
    def violation(self, kind, case, detail, key=None, finding=None):
        """Record a violation. `finding` = id of the open known finding this
        violation was attributed to by the caller (or None = new)."""
        if finding is not None:
            self.known_hits[finding] = self.known_hits.get(finding, 0) + 1
            if finding not in self.known_samples:
                self.known_samples[finding] = {
                    'kind': kind, 'case': jsonable(case),
                    'detail': clip(detail, 600)}
            return
        self.violation_total += 1
        key = h64((kind, key if key is not None else detail))
        if key in self._vkeys or len(self.violations) >= self.MAX_VIOL:
            return
        self._vkeys.add(key)
        self.violations.append({'kind': kind, 'case': jsonable(case),
                                'detail': clip(detail, 2000), 'vkey': key})

    def inconclusive_(self, why):
        if why not in self.inconclusive:
            self.inconclusive.append(why)

    def dump(self):
        return {
            'prop': self.prop, 'shard': self.shard,
            'evaluations': self.evaluations,
            'sigs': sorted(self.sigs),
            'samples': self.samples,
            'counters': self.counters, 'hists': self.hists,
            'monitors': self.monitors,
            'violations': self.violations,
            'violation_total': self.violation_total,
            'known_hits': self.known_hits,
            'known_samples': self.known_samples,
            'inconclusive': self.inconclusive, 'notes': self.notes,
        }


class Ctx:
    """What a shard gets: its PRNG, budget and recorder."""

    def __init__(self, prop, tier, seed, shard, nshards, budget_s, rec):
        self.prop = prop
        self.tier = tier
        self.seed = seed
        self.shard = shard
        self.nshards = nshards
        self.rng = random.Random(derive_seed(seed, prop, shard))
        self.rec = rec
        self.t0 = time.monotonic()
        self.budget_s = budget_s

    def time_left(self):
        return self.budget_s - (time.monotonic() - self.t0)

    def running(self):
        return self.time_left() > 0

    def sub_rng(self, *parts):
        return random.Random(derive_seed(self.seed, self.prop, self.shard,
                                         *parts))


def write_json(path, obj):
    tmp = path + '.tmp.%d' % os.getpid()
    with open(tmp, 'w') as f:
        json.dump(obj, f, indent=1, ensure_ascii=True)
    os.replace(tmp, path)


def eprint(*a):
    print(*a, file=sys.stderr)
