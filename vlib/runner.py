"""Driver: ./check CNN [--tier quick|thorough] [--replay PATH]

Fans one property check out over shard subprocesses, merges what their
monitors recorded, replays known-finding witnesses, writes the evidence file
and prints the verdict:

  exit 0                      held on everything observed
  exit 1 + VIOLATION line     a violation no open known finding accounts for
  exit 3 + INCONCLUSIVE line  a deciding monitor observed nothing / watchdog
"""
import argparse
import importlib
import json
import os
import subprocess
import sys
import tempfile
import time
import traceback

from vlib import common, findings

PY = '/venv/bin/python'
# evidence/ and replays/ live in /verif; VERIF_OUT redirects them when the
# checks are pointed at a scratch tree (seeded-change experiments)
OUT_BASE = os.environ.get('VERIF_OUT') or common.VERIF


def safe(text):
    """Printable ASCII only (details quote hostile inputs)."""
    return ''.join(c if 32 <= ord(c) < 127 else
                   c.encode('unicode_escape').decode('ascii')
                   if ord(c) < 0xd800 or ord(c) > 0xdfff
                   else '\\u%04x' % ord(c) for c in text)


def parse_args(argv):
    ap = argparse.ArgumentParser()
    ap.add_argument('prop')
    ap.add_argument('--tier', default=os.environ.get('VERIF_TIER') or 'quick',
                    choices=['quick', 'thorough'])
    ap.add_argument('--seed', type=int,
                    default=int(os.environ.get('VERIF_SEED') or 0))
    ap.add_argument('--replay')
    ap.add_argument('--shards', type=int)
    ap.add_argument('--budget', type=float)
    return ap.parse_args(argv)


def run_shards(prop, tier, seed, nshards, budget, hard_timeout):
    tmpdir = tempfile.mkdtemp(prefix='verif-%s-' % prop)
    procs = []
    env = dict(os.environ)
    env['PYTHONPATH'] = os.pathsep.join(
        [common.REPO, common.VERIF, os.path.join(common.VERIF, '.deps')])
    env.setdefault('PYTHONHASHSEED', '0')
    env['PYTHONDONTWRITEBYTECODE'] = '1'
    for i in range(nshards):
        out = os.path.join(tmpdir, 'shard%d.json' % i)
        err = open(os.path.join(tmpdir, 'shard%d.err' % i), 'w')
        p = subprocess.Popen(
            [PY, '-B', '-m', 'vlib.worker', prop, tier, str(seed), str(i),
             str(nshards), str(budget), out],
            cwd=common.VERIF, env=env, stdout=err, stderr=err)
        procs.append((i, p, out, err))
    results, problems = [], []
    deadline = time.monotonic() + hard_timeout
    for i, p, out, err in procs:
        try:
            p.wait(timeout=max(1, deadline - time.monotonic()))
        except subprocess.TimeoutExpired:
            p.kill()
            p.wait()
            problems.append('shard %d hit the wall-clock watchdog' % i)
            continue
        finally:
            err.close()
        try:
            with open(out) as f:
                results.append(json.load(f))
        except Exception:
            tail = ''
            try:
                with open(err.name) as f:
                    tail = f.read()[-800:]
            except OSError:
                pass
            problems.append('shard %d died (exit %s): %s'
                            % (i, p.returncode, tail))
    for i, p, out, err in procs:
        for path in (out, err.name):
            try:
                os.unlink(path)
            except OSError:
                pass
    try:
        os.rmdir(tmpdir)
    except OSError:
        pass
    return results, problems


def merge(results):
    agg = {'evaluations': 0, 'sigs': set(), 'samples': [], 'counters': {},
           'hists': {}, 'monitors': {}, 'violations': [],
           'violation_total': 0, 'known_hits': {}, 'known_samples': {},
           'inconclusive': [], 'notes': [], '_vkeys': set()}
    for r in results:
        agg['evaluations'] += r['evaluations']
        agg['sigs'].update(r['sigs'])
        agg['samples'].extend(r['samples'][:2])
        for k, v in r['counters'].items():
            agg['counters'][k] = agg['counters'].get(k, 0) + v
        for k, v in r['monitors'].items():
            agg['monitors'][k] = agg['monitors'].get(k, 0) + v
        for name, d in r['hists'].items():
            dd = agg['hists'].setdefault(name, {})
            for k, v in d.items():
                dd[k] = dd.get(k, 0) + v
        for v in r['violations']:
            if v.get('vkey') not in agg['_vkeys']:
                agg['_vkeys'].add(v.get('vkey'))
                agg['violations'].append(v)
        agg['violation_total'] += r['violation_total']
        for k, v in r['known_hits'].items():
            agg['known_hits'][k] = agg['known_hits'].get(k, 0) + v
        for k, v in r['known_samples'].items():
            agg['known_samples'].setdefault(k, v)
        for x in r['inconclusive']:
            if x not in agg['inconclusive']:
                agg['inconclusive'].append(x)
        for x in r['notes']:
            if x not in agg['notes']:
                agg['notes'].append(x)
        for rel, d in (r.get('anchor_coverage') or {}).items():
            if isinstance(d, dict) and 'hit' in d:
                c = agg.setdefault('anchor_coverage', {}).setdefault(
                    rel, {'hit': set(), 'executable': d['executable']})
                c['hit'].update(d['hit'])
    return agg


def replay_witnesses(mod, fnd):
    """Returns (known_lines, regressions)."""
    known, regress, info = [], [], {}
    checker = getattr(mod, 'witness', None)
    for e in fnd.entries:
        fails = []
        for w in e.get('witnesses', []):
            if checker is None:
                break
            if w.get('property') not in (None, mod.ID):
                continue
            try:
                bad, detail = checker(common.unjson(w))
            except Exception:
                bad, detail = None, traceback.format_exc()[-400:]
            fails.append((bad, detail, w))
        info[e['id']] = {
            'status': e.get('status'),
            'witnesses': len(fails),
            'witnesses_failing': sum(1 for b, _, _ in fails if b),
        }
        if e.get('status') == 'open':
            if any(b for b, _, _ in fails):
                known.append((e['id'], e.get('mechanism', '')))
        elif e.get('status') == 'fixed':
            for b, detail, w in fails:
                if b:
                    regress.append({'kind': 'regression-of-fixed-' + e['id'],
                                    'case': w, 'detail': detail})
    return known, regress, info


def main(argv=None):
    args = parse_args(argv if argv is not None else sys.argv[1:])
    prop = args.prop.upper()
    t0 = time.time()
    common.assert_repo_sqlparse()
    mod = importlib.import_module('vlib.props.' + prop.lower())
    fnd = findings.Findings(prop)

    if args.replay:
        return do_replay(mod, prop, args.replay)

    plan = mod.plan(args.tier)
    nshards = args.shards or plan.get('shards', 16)
    budget = args.budget or plan['budget_s']
    hard = plan.get('hard_timeout_s', budget * 4 + 120)

    results, problems = run_shards(prop, args.tier, args.seed, nshards,
                                   budget, hard)
    agg = merge(results)
    known, regress, winfo = replay_witnesses(mod, fnd)
    agg['violations'] = regress + agg['violations']
    agg['violation_total'] += len(regress)

    if hasattr(mod, 'finalize'):
        mod.finalize(agg, args.tier)

    # --- verdict --------------------------------------------------------
    inconclusive = list(problems) + list(agg['inconclusive'])
    for name in getattr(mod, 'DECIDING', []):
        if agg['monitors'].get(name, 0) == 0:
            inconclusive.append('deciding monitor %r observed nothing' % name)
    if agg['evaluations'] == 0:
        inconclusive.append('no case was executed')

    replay_paths = []
    if agg['violations']:
        rdir = os.path.join(OUT_BASE, 'replays', prop)
        os.makedirs(rdir, exist_ok=True)
        for v in agg['violations'][:20]:
            path = os.path.join(rdir, common.h64(json.dumps(
                v, sort_keys=True)) + '.json')
            common.write_json(path, {'property': prop, **v})
            replay_paths.append((v, path))

    wall = time.time() - t0
    nsig = len(agg['sigs'])
    coverage = {
        'evaluations': agg['evaluations'],
        'distinct_nontrivial': nsig,
        'rule': mod.RULE,
        'samples': agg['samples'][:8] or ['<none>'],
        'monitor_evaluations': agg['monitors'],
        'counters': agg['counters'],
        'histograms': agg['hists'],
        'known_finding_hits': agg['known_hits'],
        'known_finding_samples': agg['known_samples'],
        'known_finding_witnesses': winfo,
        'shards': nshards,
        'shard_budget_s': budget,
        'anchor_line_coverage': {
            rel: '%d of %d executable function lines reached (shard 0 only; '
                 'reach information, never part of the verdict)'
                 % (len(d['hit']), d['executable'])
            for rel, d in agg.get('anchor_coverage', {}).items()},
        'inconclusive_reasons': inconclusive,
        'notes': agg['notes'],
        'verdict': ('violated' if agg['violations'] else
                    'inconclusive' if inconclusive else
                    'held on what was observed'),
    }
    if getattr(mod, 'EXHAUSTIVE_PART', None):
        coverage['exhaustive_part'] = mod.EXHAUSTIVE_PART
    evidence = {
        'property_id': prop,
        'tier': args.tier,
        'seed': args.seed,
        'level': getattr(mod, 'LEVEL', 'exploration'),
        'coverage': coverage,
        'assumptions': list(getattr(mod, 'ASSUMPTIONS', [])),
        'wall_s': round(wall, 2),
        'violations': agg['violation_total'],
    }
    os.makedirs(os.path.join(OUT_BASE, 'evidence'), exist_ok=True)
    common.write_json(os.path.join(OUT_BASE, 'evidence', prop + '.json'),
                      evidence)

    # --- output ---------------------------------------------------------
    print('%s tier=%s seed=%d: %d cases, %d distinct non-trivial, %.1fs'
          % (prop, args.tier, args.seed, agg['evaluations'], nsig, wall))
    for name, n in sorted(agg['monitors'].items()):
        print('  monitor %-28s %d evaluations' % (name, n))
    shown = set()
    for fid, mech in known:
        shown.add(fid)
        print('KNOWN-FINDING: property=%s %s: %s (witness still fails; %d '
              'workload hits)' % (prop, fid, mech,
                                  agg['known_hits'].get(fid, 0)))
    for fid, n in sorted(agg['known_hits'].items()):
        if fid not in shown and fid in fnd.open:
            print('KNOWN-FINDING: property=%s %s: %s (%d workload hits)'
                  % (prop, fid, fnd.open[fid].get('mechanism', ''), n))
    if agg['violations']:
        for v, path in replay_paths:
            print('VIOLATION property=%s replay=%s' % (prop, path))
            print('  kind=%s detail=%s' % (v['kind'],
                                          safe(common.clip(v['detail'],
                                                           400))))
        print('  (%d violating cases in total)' % agg['violation_total'])
        return 1
    if inconclusive:
        for x in inconclusive:
            print('INCONCLUSIVE property=%s %s' % (prop,
                                                   safe(common.clip(x, 600))))
        return 3
    print('HELD property=%s on everything observed' % prop)
    return 0


def do_replay(mod, prop, path):
    with open(path) as f:
        v = json.load(f)
    rec = common.Recorder(prop)
    case = common.unjson(v['case'])
    if v.get('kind', '').startswith('regression-of-fixed-'):
        bad, detail = mod.witness(case)
        if bad:
            rec.violation(v['kind'], case, detail)
    else:
        ctx = common.Ctx(prop, 'quick', 0, 0, 1, 60, rec)
        ctx.findings = findings.Findings(prop)
        mod.replay(ctx, v.get('kind'), case)
    if rec.violations:
        for x in rec.violations:
            print('VIOLATION property=%s replay=%s' % (prop, path))
            print('  kind=%s detail=%s' % (x['kind'], safe(x['detail'])))
        return 1
    print('replay: no violation reproduced (known hits: %s)' % rec.known_hits)
    return 0


if __name__ == '__main__':
    sys.exit(main())
