"""C07 — totality: any text and any valid option set gives a result or
SQLParseError; invalid option values are rejected before any work."""
import io
import traceback

import sqlparse
from sqlparse import sql
from sqlparse.exceptions import SQLParseError

from vlib import grammar, hooks, hostile, options, oracles
from vlib.props import grammar_texts

ID = 'C07'
LEVEL = 'exploration'
DECIDING = ['api_exception_class', 'accessor_sweep', 'invalid_option']
RULE = ('inputs: grammar scripts, near-valid scripts (1-4 token-level '
        'edits), token soup, bracket/keyword soup, char soup, mutated corpus '
        'x random valid option sets over every option validate_options '
        'knows (right_margin excluded: undocumented and not implemented) '
        'for format(), plus parse() and split(); on every returned tree '
        'every read-only accessor of every node is called and generators '
        'are drained; invalid option values (per documented type) must give '
        'SQLParseError with zero lexer invocations. distinct_nontrivial = '
        'distinct (tree shape, option set) pairs')
ASSUMPTIONS = [
    'an exception is attributed by type and innermost sqlparse frame; '
    'only SQLParseError is an acceptable exception',
    '"before any formatting happens" is observed as: no call of '
    'Lexer.get_tokens during the rejected format() call (M-LEX counter); '
    'if that hook is unavailable only the exception class is judged',
]

ACCESSORS_ALL = ['get_alias', 'get_name', 'get_real_name', 'get_parent_name',
                 'has_alias', 'token_first', 'is_wildcard', 'get_typecast',
                 'get_ordering', 'is_multiline', 'get_type', 'get_window']
GENERATORS = ['get_identifiers', 'get_parameters', 'get_array_indices',
              'get_sublists', 'flatten']


def plan(tier):
    return {'shards': 16, 'budget_s': 35 if tier == 'quick' else 480}


def exc_sig(exc):
    tb = traceback.extract_tb(exc.__traceback__)
    fn = '?'
    for fr in reversed(tb):
        if '/sqlparse/' in fr.filename:
            fn = '%s:%s' % (fr.filename.rsplit('/', 1)[-1], fr.name)
            break
    return '%s@%s' % (type(exc).__name__, fn)


def sweep(rec, case, stmts, rng):
    """Call every accessor on (a bounded sample of) the nodes."""
    nodes = []
    for s in stmts:
        for node, depth, parent in oracles.walk(s):
            nodes.append(node)
            if len(nodes) > 4000:
                break
    if len(nodes) > 120:
        groups = [n for n in nodes if n.is_group]
        if len(groups) > 90:
            groups = rng.sample(groups, 90)
        nodes = groups + rng.sample(nodes, 30)
    ncalls = 0
    sink = io.StringIO()
    for node in nodes:
        names = list(ACCESSORS_ALL) + GENERATORS
        for name in names:
            f = getattr(node, name, None)
            if f is None:
                continue
            ncalls += 1
            try:
                r = f()
                if name in GENERATORS and r is not None:
                    for _ in r:
                        pass
            except SQLParseError:
                pass
            except RecursionError as exc:
                rec.violation('accessor', dict(case, accessor=name,
                                               node=type(node).__name__),
                              'RecursionError in %s' % name,
                              key='rec-' + name)
            except Exception as exc:
                rec.violation('accessor', dict(case, accessor=name,
                                               node=type(node).__name__,
                                               node_text=node.value[:80]),
                              '%s.%s() raised %s: %s' % (
                                  type(node).__name__, name, exc_sig(exc),
                                  exc), key=name + exc_sig(exc))
        if node.is_group:
            try:
                ncalls += 4
                if isinstance(node, sql.Case):
                    node.get_cases()
                    node.get_cases(skip_ws=True)
                if isinstance(node, sql.Comparison):
                    node.left
                    node.right
                node.get_token_at_offset(0)
                node.get_token_at_offset(len(node.value))
                node.token_first(skip_ws=True, skip_cm=True)
            except SQLParseError:
                pass
            except Exception as exc:
                rec.violation('accessor', dict(case, node=type(node).__name__,
                                               node_text=node.value[:80]),
                              '%s accessor raised %s: %s' % (
                                  type(node).__name__, exc_sig(exc), exc),
                              key='grp' + exc_sig(exc))
    for s in stmts[:2]:
        try:
            ncalls += 1
            s._pprint_tree(f=sink)
        except SQLParseError:
            pass
        except Exception as exc:
            rec.violation('accessor', case, '_pprint_tree raised %s'
                          % exc_sig(exc), key='pp' + exc_sig(exc))
    rec.count('accessor_calls', ncalls)


def check_case(ctx, kind, text, opts, rng):
    rec = ctx.rec
    rec.case()
    case = {'text': text, 'source': kind, 'options': opts}
    stmts = None
    for api in ('parse', 'split', 'format'):
        rec.monitor('api_exception_class')
        try:
            if api == 'parse':
                stmts = sqlparse.parse(text)
            elif api == 'split':
                sqlparse.split(text)
                if rng.random() < 0.2:
                    sqlparse.split(text, strip_semicolon=True)
            else:
                sqlparse.format(text, **dict(opts))
        except SQLParseError:
            rec.count('sqlparseerror_' + api)
        except Exception as exc:
            rec.violation('api-' + api, dict(case, api=api),
                          '%s(%s) raised %s: %s' % (
                              api, 'options=%r' % (opts,) if api == 'format'
                              else '', exc_sig(exc), exc),
                          key=api + exc_sig(exc))
    if stmts is not None:
        rec.monitor('accessor_sweep')
        sweep(rec, case, stmts, rng)
        if stmts:
            rec.nontrivial((oracles.shape(stmts[0]),
                            options.opts_key(opts)))
    rec.hist('source', kind)
    for k in opts:
        rec.hist('option_used', k)
    if rec.evaluations % 997 == 1:
        rec.sample({'source': kind, 'text': text[:200], 'options': opts})


def check_invalid(ctx, text, opts, name):
    rec = ctx.rec
    rec.case()
    rec.monitor('invalid_option')
    case = {'text': text, 'options': opts, 'invalid': name}
    before = hooks.STATE.lex_calls
    try:
        sqlparse.format(text, **dict(opts))
    except SQLParseError:
        if hooks.STATE.lex_calls != before:
            rec.violation('invalid-option-late', case,
                          'option %s=%r was rejected only after the lexer '
                          'had been invoked' % (name, opts[name]), key=name)
        rec.count('invalid_rejected')
    except Exception as exc:
        rec.violation('invalid-option-exception', case,
                      'format(%s=%r) raised %s: %s instead of SQLParseError'
                      % (name, opts[name], exc_sig(exc), exc),
                      key=name + type(exc).__name__)
    else:
        rec.violation('invalid-option-accepted', case,
                      'format accepted %s=%r' % (name, opts[name]),
                      key=name + repr(opts[name])[:10])
    rec.hist('invalid_option', name)


def near_valid(rng, gen):
    """A grammar statement with 1-4 token-level edits, single-blank layout;
    now and then whole statements wrapped in parentheses."""
    st = gen.statement()
    toks = [t.text for t in st.toks]
    if rng.random() < 0.12:
        other = ' '.join(t.text for t in gen.statement().toks)
        return '( %s ) %s ( %s )' % (' '.join(toks), rng.choice(
            ['union all', 'union', 'except', ',', ';', '']), other)
    for _ in range(rng.randint(1, 4)):
        if not toks:
            break
        i = rng.randrange(len(toks))
        op = rng.random()
        if op < 0.2:
            del toks[i]
        elif op < 0.35:
            toks.insert(i, toks[i])
        elif op < 0.5 and i + 1 < len(toks):
            toks[i], toks[i + 1] = toks[i + 1], toks[i]
        elif op < 0.9:
            toks.insert(i, rng.choice(
                ['(', ')', '[', ']', 'CASE', 'END', 'IF', 'END IF', 'BEGIN',
                 'FOR', 'END LOOP', '::', ':=', ',', '=', '+', 'AS', 'OVER',
                 'WHEN', 'THEN', 'ELSE', '.', ';', 'VALUES', 'WHERE', 'IN',
                 'ORDER BY', '*', 'AT TIME ZONE \'x\'', 'WITH', 'SELECT']))
        else:
            toks = toks[:i]
    return ' '.join(toks)


def shard(ctx):
    rec, rng = ctx.rec, ctx.rng
    hooks.install_lex_tee()
    src = grammar_texts.Source(rng)
    gen = grammar.Gen(rng)
    i = 0
    while ctx.running():
        i += 1
        hooks.STATE.reset_streams()
        x = rng.random()
        if x < 0.08:
            opts, name = options.invalid_option(rng)
            check_invalid(ctx, rng.choice(['select 1 from t', src.text()]),
                          opts, name)
            continue
        if x < 0.09:
            # deep nesting (C15 explores it in isolated processes; here a
            # few depths with random option sets, in-process)
            from vlib import c15_cell
            kind = 'deepnest'
            text = c15_cell.build(rng.choice(
                ['parens', 'calls', 'case', 'brackets', 'subqueries',
                 'paren_lists', 'open_parens', 'operators']),
                rng.choice([60, 130, 260, 400]))
        elif x < 0.3:
            kind, text = 'grammar', src.text()
        elif x < 0.5:
            kind, text = 'nearvalid', near_valid(rng, gen)
        elif x < 0.63:
            kind, text = 'tokensoup', hostile.token_soup(rng)
        elif x < 0.7:
            kind, text = 'danglingsoup', hostile.dangling_soup(rng)
        elif x < 0.82:
            kind, text = 'blocksoup', hostile.block_soup(rng)
        elif x < 0.93:
            kind, text = 'charsoup', hostile.char_soup(rng)
        else:
            kind, text = 'corpusmut', hostile.corpus_mutation(rng)
        check_case(ctx, kind, text, options.any_valid_options(rng), rng)
    for u in hooks.STATE.unavailable:
        rec.note('hook unavailable: ' + u)


def replay(ctx, kind, case):
    import random
    hooks.install_lex_tee()
    if 'invalid' in case:
        check_invalid(ctx, case['text'], case['options'], case['invalid'])
    else:
        check_case(ctx, case.get('source', 'replay'), case['text'],
                   case.get('options', {}), random.Random(0))


def witness(w):
    import random
    from vlib import common, findings
    hooks.install_lex_tee()
    rec = common.Recorder(ID)
    ctx = common.Ctx(ID, 'quick', 0, 0, 1, 60, rec)
    ctx.findings = findings.Findings('__none__')
    if w.get('invalid'):
        check_invalid(ctx, w['input'], w['options'], w['invalid'])
    else:
        check_case(ctx, 'witness', w['input'], w.get('options', {}),
                   random.Random(0))
    if rec.violations:
        return True, rec.violations[0]['detail']
    return False, ''
