"""C02 — parse() is text-preserving."""
import io

import sqlparse
from sqlparse import sql

from vlib import hooks, hostile, oracles
from vlib.props import grammar_texts

ID = 'C02'
LEVEL = 'exploration'
DECIDING = ['parse_roundtrip', 'interleaved_parsestream']
RULE = ('inputs: char soup, token soup, bracket/keyword soup, mutated '
        'tests/files/*.sql, multi-statement grammar scripts with every '
        'separator form, now and then one statement of 10-25 thousand tokens '
        '(bulk INSERT / IN list / select list), and every sequence of <=2 (quick) / <=3 (thorough) '
        'atoms; oracle: joined str() of parse() (and of parsestream()) is the '
        'input minus a whitespace-only tail, and str() of every node equals '
        'its leaves; every 12th input additionally runs as two parsestream() '
        'generators advanced alternately with a parse() call in between. '
        'distinct_nontrivial = distinct tree shapes containing '
        'at least one group node below the statement')
ASSUMPTIONS = ['observation at sqlparse.parse / parsestream / str(node); '
               'M-SPLIT hook (token conservation in the splitter) is '
               'best-effort localisation']


def plan(tier):
    return {'shards': 16, 'budget_s': 28 if tier == 'quick' else 420}


def check_text(rec, kind, text, stream=False):
    rec.case()
    case = {'text': text, 'source': kind, 'stream': stream}
    try:
        if stream:
            stmts = tuple(sqlparse.parsestream(io.StringIO(text)))
        else:
            stmts = sqlparse.parse(text)
    except sqlparse.exceptions.SQLParseError:
        rec.count('sqlparseerror')
        return
    except Exception as exc:
        # totality is C07's business; here it only means "nothing observed"
        rec.count('other_exception_(C07)')
        hooks.STATE.drain_violations()
        return
    rec.monitor('parse_roundtrip')
    err = oracles.parse_roundtrip(text, stmts)
    if err:
        rec.violation('roundtrip', case, err, key=err[:30])
    for hook, detail in hooks.STATE.drain_violations():
        if hook == 'M-SPLIT':
            rec.violation('splitter-conservation', case, detail,
                          key=detail[:30])
    nontriv = False
    for s in stmts:
        if any(isinstance(t, sql.TokenList) for t in s.tokens):
            nontriv = True
    if nontriv:
        rec.nontrivial(tuple(oracles.shape(s) for s in stmts[:4]))
    rec.hist('statements', min(len(stmts), 6))
    rec.hist('source', kind)
    if rec.evaluations % 1499 == 1:
        rec.sample({'source': kind, 'text': text[:240],
                    'statements': len(stmts)})


def check_interleaved(rec, a, b):
    """Two parsestream() generators alive at once, advanced alternately, and
    a parse() call in the middle: every result must still round-trip."""
    rec.case()
    rec.monitor('interleaved_parsestream')
    case = {'text': a, 'other': b, 'interleaved': True}
    try:
        ga, gb = sqlparse.parsestream(a), sqlparse.parsestream(io.StringIO(b))
        sa, sb = [], []
        da = db = False
        k = 0
        while not (da and db):
            k += 1
            if not da:
                try:
                    sa.append(next(ga))
                except StopIteration:
                    da = True
            if k == 2:
                mid = sqlparse.parse(b)
            if not db:
                try:
                    sb.append(next(gb))
                except StopIteration:
                    db = True
    except sqlparse.exceptions.SQLParseError:
        hooks.STATE.drain_violations()
        return
    except Exception as exc:
        hooks.STATE.drain_violations()
        if isinstance(exc, (RecursionError,)):
            return
        # does the same text raise when parsed alone? then it is C07's
        try:
            sqlparse.parse(a)
            sqlparse.parse(b)
        except Exception:
            return
        rec.violation('interleaved-raised', case, '%s: %s' % (
            type(exc).__name__, exc), key='ilexc')
        return
    hooks.STATE.drain_violations()
    for text, stmts in ((a, sa), (b, sb)):
        err = oracles.parse_roundtrip(text, stmts)
        if err:
            rec.violation('interleaved-roundtrip', case,
                          'with two parsestream() generators advanced '
                          'alternately: ' + err, key='il')
            return


def shard(ctx):
    rec, rng = ctx.rec, ctx.rng
    hooks.install_split_monitor()
    maxlen = 2 if ctx.tier == 'quick' else 3
    total = hostile.atom_count(maxlen)
    for idx in range(ctx.shard, total, ctx.nshards):
        check_text(rec, 'atoms<=%d' % maxlen, hostile.atom_sequence_at(idx))
    gen = grammar_texts.Source(rng)
    i = 0
    while ctx.running():
        i += 1
        if rng.random() < 0.7:
            kind, text = hostile.hostile_text(rng)
        else:
            kind, text = 'grammar', hostile.decorate(rng, gen.text())
        check_text(rec, kind, text, stream=(i % 5 == 0))
        if i % 300 == 150:
            check_text(rec, 'longtoken', hostile.long_token(rng),
                       stream=(i % 600 == 150))
        if i % 1500 == 700:
            check_text(rec, 'bulk', hostile.bulk_statement(rng))
        elif i % 1500 == 1300:
            check_text(rec, 'many', hostile.many_statements(rng),
                       stream=True)
        if i % 12 == 0:
            check_interleaved(rec, text, gen.text() if rng.random() < 0.5
                              else hostile.token_soup(rng))
    rec.count('splitter_events', hooks.STATE.split_events)
    for u in hooks.STATE.unavailable:
        rec.note('hook unavailable: ' + u)


def replay(ctx, kind, case):
    hooks.install_split_monitor()
    if case.get('interleaved'):
        check_interleaved(ctx.rec, case['text'], case['other'])
    else:
        check_text(ctx.rec, case.get('source', 'replay'), case['text'],
                   case.get('stream', False))
