"""C20 — results depend only on input and options: no call history, no
thread effects."""
import io
import json
import os
import subprocess
import sys
import threading

import sqlparse
from sqlparse import lexer, tokens as T
from sqlparse.exceptions import SQLParseError

from vlib import c20_trial, common, hostile, options
from vlib.props import grammar_texts

ID = 'C20'
LEVEL = 'exploration'
DECIDING = ['history_differential', 'concurrent_equals_sequential',
            'first_call_init']
TECHNIQUE = ('runtime monitoring: history differential against a fresh-'
             'process reference; invariant at a hook (M-INIT) under injected '
             'schedules (sys.monitoring LINE events + 1 microsecond switch '
             'interval)')
RULE = ('(1) histories: 1-8 random operations (valid parse/split/format '
        'calls with every filter, calls that raise: bad options, wrong '
        'input type, recursion overflow under a lowered limit; abandoned '
        'parsestream generators; clear()/set_SQL_REGEX()/add_keywords() '
        'followed by default_initialization(); a privately configured '
        'second Lexer object; bursts of concurrent calls) after which the '
        'probe observation set (c20_trial.PROBES, run in listed or shuffled '
        'order) must equal the reference taken in a fresh process; the '
        'reference itself is taken twice, probes in listed and in reverse '
        'order, and both must agree. (2) N in {2,4,8} threads run identical '
        'and disjoint inputs through parse/split/format with a 1 us switch '
        'interval; each result must equal the sequential one. (3) first '
        'calls: fresh process per trial, 2-8 threads released by a barrier, '
        'yields/sleeps injected on every line of lexer creation and '
        'initialisation; every instance handed out must tokenize a probe '
        'exactly like a privately initialised lexer and each thread\'s '
        'result must equal the single-threaded one. distinct_nontrivial = '
        'distinct histories (operation-kind sequences) + distinct observed '
        '(thread,line) interleavings of the first-call trials')
ASSUMPTIONS = [
    'the reference observations come from a fresh interpreter running the '
    'same working tree',
    'schedule perturbation explores interleavings at statement-start lines '
    'of sqlparse/lexer.py; it cannot enumerate all schedules',
]


def plan(tier):
    return {'shards': 16, 'budget_s': 40 if tier == 'quick' else 480}


def fresh(args, timeout=120):
    p = subprocess.run([sys.executable, '-B', '-m', 'vlib.c20_trial'] + args,
                       cwd=common.VERIF, capture_output=True, text=True,
                       timeout=timeout)
    lines = p.stdout.strip().splitlines()
    if p.returncode != 0 or not lines:
        return p.returncode, None, p.stderr[-500:]
    try:
        return 0, json.loads(lines[-1]), ''
    except ValueError:
        return p.returncode, None, p.stdout[-300:]


# ---- (1) histories ---------------------------------------------------------
def op_valid(rng, src):
    text = src.text() if rng.random() < 0.6 else hostile.token_soup(rng)
    api = rng.choice(['parse', 'split', 'format', 'format', 'format'])
    try:
        if api == 'parse':
            sqlparse.parse(text)
        elif api == 'split':
            sqlparse.split(text, strip_semicolon=rng.random() < 0.3)
        else:
            sqlparse.format(text, **options.any_valid_options(rng))
    except Exception:
        pass
    return 'valid-' + api


def op_encoding(rng, src):
    """Calls that pass an explicit encoding (valid or unknown), on str and
    on bytes input."""
    enc = rng.choice(['latin-1', 'cp1251', 'utf-16', 'no-such-codec', 'gbk'])
    text = rng.choice(['select 1 from t', 'select \u00e9 from t'])
    for data in (text, text.encode('utf-8', 'replace')):
        try:
            rng.choice([sqlparse.parse, sqlparse.split,
                        sqlparse.format])(data, encoding=enc)
        except Exception:
            pass
    return 'explicit-encoding'


def op_bulk(rng, src):
    """One statement of more than 10 000 tokens."""
    text = hostile.bulk_statement(rng)
    try:
        if rng.random() < 0.5:
            sqlparse.parse(text)
        else:
            sqlparse.format(text, keyword_case='upper')
    except Exception:
        pass
    return 'bulk-statement'


def op_bad_option(rng, src):
    opts, name = options.invalid_option(rng)
    try:
        sqlparse.format('select 1 from t', **opts)
    except Exception:
        pass
    return 'bad-option'


def op_wrong_type(rng, src):
    for f in (sqlparse.parse, sqlparse.split, sqlparse.format):
        try:
            f(rng.choice([5, None, 1.5, [b'x'], object()]))
        except Exception:
            pass
    return 'wrong-type'


def op_recursion(rng, src):
    old = sys.getrecursionlimit()
    text = rng.choice(['select ' + '(' * 300 + ')' * 300,
                       'select ' + 'case when a then ' * 200 + ' end' * 200,
                       'select a' + '[' * 400 + ']' * 400,
                       'select ' + 'f(' * 300 + '1' + ')' * 300
                       + '; select 2; select 3',
                       'select * from ' + '(select * from ' * 300 + 't'
                       + ')' * 300])
    sys.setrecursionlimit(rng.choice([80, 120, 200]))
    try:
        try:
            x = rng.random()
            if x < 0.4:
                sqlparse.parse(text)
            elif x < 0.7:
                sqlparse.format(text, reindent=True)
            else:
                sqlparse.format(text, reindent_aligned=True,
                                indent_tabs=rng.random() < 0.5)
        except Exception:
            pass
    finally:
        sys.setrecursionlimit(old)
    return 'recursion-overflow'


_abandoned = []


def op_abandon(rng, src):
    g = sqlparse.parsestream(io.StringIO('select 1; select 2; select 3;'))
    if rng.random() < 0.7:
        try:
            next(g)
        except Exception:
            pass
    if rng.random() < 0.5:
        _abandoned.append(g)      # stays suspended for the rest of the run
        if len(_abandoned) > 20:
            _abandoned.pop(0)
    return 'abandoned-generator'


def op_reconfigure(rng, src):
    lex = lexer.Lexer.get_default_instance()
    try:
        x = rng.random()
        if x < 0.3:
            lex.clear()
            try:
                sqlparse.parse('select 1')
            except Exception:
                pass
        elif x < 0.6:
            lex.add_keywords({'FOOBAR': T.Keyword, 'ZORK': T.Keyword.DML,
                              'SELECT': T.Name})
            sqlparse.parse('foobar zork select')
        elif x < 0.75:
            # rules replaced on the initialised lexer, nothing else touched
            # (no clear(), no add_keywords())
            from sqlparse import keywords as kwmod
            lex.set_SQL_REGEX(
                [(r'\w+', T.Name), (r'<=>', T.Operator.Comparison)]
                + (list(kwmod.SQL_REGEX) if rng.random() < 0.5
                   else [(r'\s+', T.Whitespace)]))
            try:
                sqlparse.format('select a <=> b from t', reindent=True)
            except Exception:
                pass
        else:
            lex.clear()
            lex.set_SQL_REGEX([(r'\w+', T.Name), (r'\s+', T.Whitespace),
                               (r'<=>', T.Operator.Comparison)])
            lex.add_keywords({'SELECT': T.Keyword.DML})
            try:
                sqlparse.format('select a <=> b', reindent=True)
            except Exception:
                pass
    finally:
        lex.default_initialization()
    return 'reconfigure+default_initialization'


_probe_words = None


def op_private_lexer(rng, src):
    """A second, privately configured Lexer object used next to the
    process-wide default one (which is not touched): per-class or module
    level state of the lexer shows in the probes afterwards."""
    global _probe_words
    if _probe_words is None:
        import re as _re
        ws = set()
        for p in c20_trial.PROBES:
            ws.update(_re.findall(r'[A-Za-z_]\w*', p[1]))
        _probe_words = sorted(ws)
    from sqlparse import keywords as kwmod
    lx = lexer.Lexer()
    try:
        lx.clear()
        if rng.random() < 0.5:
            lx.set_SQL_REGEX(kwmod.SQL_REGEX)
        else:
            lx.set_SQL_REGEX([(r'\w+', lx.is_keyword
                               if hasattr(lx, 'is_keyword') else T.Name),
                              (r'\s+', T.Whitespace), (r'.', T.Error)])
        lx.add_keywords({'TIMESTAMP': T.Name.Builtin, 'SHARD': T.Keyword,
                         'ZORK': T.Keyword.DML, 'FOOBAR': T.Keyword,
                         'SELECT': T.Name, 'FROM': T.Name.Builtin,
                         'END': T.Name, 'T': T.Keyword, 'A': T.Keyword})
        words = list(_probe_words)
        rng.shuffle(words)
        text = ' '.join(words + [w.upper() for w in words[:20]])
        list(lx.get_tokens(text))
        list(lx.get_tokens(src.text()))
    except Exception:
        pass
    return 'private-lexer'


def op_concurrent(rng, src):
    texts = [src.text() for _ in range(3)]

    def work(t):
        try:
            sqlparse.format(t, reindent=True, keyword_case='upper')
            sqlparse.parse(t)
        except Exception:
            pass
    ths = [threading.Thread(target=work, args=(t,)) for t in texts]
    for t in ths:
        t.start()
    for t in ths:
        t.join(30)
    return 'concurrent-burst'


_heavy_src = None


def op_heavy_format(rng, src):
    """format() with most filters switched on at once, on comment-dense
    text: shared mutable objects are touched by several filters in one
    call."""
    global _heavy_src
    if _heavy_src is None:
        _heavy_src = grammar_texts.Source(rng, comments=0.25)
    text = _heavy_src.text()
    opts = {}
    for name in ('use_space_around_operators', 'strip_comments',
                 'strip_whitespace', 'reindent', 'reindent_aligned',
                 'comma_first', 'indent_columns', 'compact'):
        if rng.random() < 0.6:
            opts[name] = True
    if rng.random() < 0.5:
        opts['keyword_case'] = rng.choice(options.CASES)
    if rng.random() < 0.3:
        opts['output_format'] = rng.choice(['python', 'php'])
    try:
        sqlparse.format(text, **opts)
    except Exception:
        pass
    return 'heavy-format'


def op_interleaved(rng, src):
    """Two lazy parsestream() generators advanced alternately with other
    calls in between (cooperative interleaving in one thread)."""
    a, b = src.text(), src.text()
    try:
        ga = sqlparse.parsestream(a)
        gb = sqlparse.parsestream(io.StringIO(b))
        for k in range(6):
            for g in (ga, gb):
                try:
                    next(g)
                except StopIteration:
                    pass
            if k == 1:
                sqlparse.format(a, reindent=True, output_format='python')
            if k == 2:
                sqlparse.split(b)
        if rng.random() < 0.5:
            _abandoned.extend([ga, gb])
            del _abandoned[:-20]
    except Exception:
        pass
    return 'interleaved-generators'


OPS = [op_valid, op_valid, op_valid, op_bad_option, op_wrong_type,
       op_interleaved, op_heavy_format, op_heavy_format, op_encoding,
       op_bulk,
       op_recursion, op_abandon, op_reconfigure, op_reconfigure,
       op_concurrent, op_private_lexer]


def history_trial(ctx, ref, src):
    rec, rng = ctx.rec, ctx.rng
    n = rng.randint(1, 8)
    kinds = []
    for _ in range(n):
        kinds.append(rng.choice(OPS)(rng, src))
    rec.case()
    rec.monitor('history_differential')
    order = list(range(len(ref)))
    if rng.random() < 0.5:
        rng.shuffle(order)
    obs = c20_trial.observe_all(sqlparse, order)
    if obs != ref:
        bad = [i for i in range(len(ref)) if obs[i] != ref[i]]
        i = bad[0]
        rec.violation('history', {'history': kinds, 'probe': i},
                      'after the history %r probe %d (%s %r) gives %s, the '
                      'fresh-process reference is %s'
                      % (kinds, i, c20_trial.PROBES[i][0],
                         c20_trial.PROBES[i][1][:40], str(obs[i])[:160],
                         str(ref[i])[:160]),
                      key=('h', kinds[-1], i))
        # restore so that later trials are judged on their own history
        try:
            lexer.Lexer.get_default_instance().default_initialization()
        except Exception:
            pass
    rec.nontrivial(('history', tuple(kinds)))
    for k in kinds:
        rec.hist('history_ops', k)
    if rec.evaluations % 97 == 1:
        rec.sample({'history': kinds})


# ---- (2) concurrent == sequential -----------------------------------------
def concurrency_trial(ctx, src):
    rec, rng = ctx.rec, ctx.rng
    n = rng.choice([2, 4, 8])
    same = rng.random() < 0.5
    jobs = []
    base = (rng.choice(['parse', 'split', 'format']), src.text(),
            options.any_valid_options(rng))
    for i in range(n):
        if same:
            jobs.append(base)
        else:
            jobs.append((rng.choice(['parse', 'split', 'format']), src.text(),
                         options.any_valid_options(rng)))
    want = [json.loads(json.dumps(c20_trial.observe(sqlparse, j)))
            for j in jobs]
    got = [None] * n
    barrier = threading.Barrier(n)

    def work(i):
        barrier.wait()
        for _ in range(2):
            got[i] = json.loads(json.dumps(
                c20_trial.observe(sqlparse, jobs[i])))
    old = sys.getswitchinterval()
    sys.setswitchinterval(1e-6)
    try:
        ths = [threading.Thread(target=work, args=(i,)) for i in range(n)]
        for t in ths:
            t.start()
        for t in ths:
            t.join(120)
    finally:
        sys.setswitchinterval(old)
    rec.case()
    rec.monitor('concurrent_equals_sequential')
    for i in range(n):
        if got[i] != want[i]:
            rec.violation('concurrent', {'api': jobs[i][0],
                                         'text': jobs[i][1],
                                         'options': jobs[i][2], 'threads': n},
                          'thread %d of %d: %s result differs from the '
                          'sequential one: %s vs %s' % (
                              i, n, jobs[i][0], str(got[i])[:120],
                              str(want[i])[:120]), key=('c', jobs[i][0]))
            break
    rec.hist('concurrency_threads', n)


# ---- (3) first calls -------------------------------------------------------
def first_call_trial(ctx, ref):
    rec, rng = ctx.rec, ctx.rng
    cfg = {'threads': rng.choice([2, 4, 8, 8]),
           'seed': rng.randrange(1 << 30),
           'inject': 'line',
           'sleep_p': rng.choice([0.1, 0.3, 0.6]),
           'same_input': rng.random() < 0.3}
    rc, res, err = fresh(['first', json.dumps(cfg)])
    rec.case()
    if res is not None and 'harness_error' in res:
        rec.count('first_call_trials_harness_error')
        rec.note('first-call trial harness error: ' + res['harness_error'][-300:])
        return
    if res is None:
        if isinstance(rc, int) and rc < 0 or 'Fatal Python error' in err:
            rec.monitor('first_call_init')
            rec.violation('first-call-died', cfg, 'trial process died, exit '
                          '%r: %s' % (rc, err[-300:]), key='died')
        else:
            rec.count('first_call_trials_unreadable')
        return
    rec.monitor('first_call_init')
    rec.count('first_call_trials')
    rec.count('first_call_line_events', res['events'])
    rec.count('first_call_thread_switches_inside_init', res['switches'])
    rec.count('first_call_minit_checks', res['init_checks'])
    if not res['pristine_before']:
        rec.note('default instance existed before the first call')
    if not res.get('minit_hook', True):
        rec.note('M-INIT hook point unavailable; judged on results only')
    if res['violations']:
        rec.violation('first-call', cfg, res['violations'][0],
                      key=res['violations'][0][:40])
    elif res['hung']:
        rec.violation('first-call-hang', cfg, 'threads still running after '
                      '60 s: %r' % res['hung'], key='hang')
    elif res['final_obs'] != ref:
        rec.violation('first-call-state', cfg, 'after racing first calls the '
                      'probe set differs from the reference', key='state')
    rec.nontrivial(('interleaving', res['interleaving']))
    rec.hist('first_call_threads', cfg['threads'])
    if rec.counters.get('first_call_trials', 0) % 7 == 1:
        rec.sample({'first_call_trial': cfg, 'line_events': res['events'],
                    'switches_inside_init': res['switches'],
                    'threads_seen': res['threads_seen']})


PRIME_TEXTS = [
    'select a, b, (select c from u where d = 1) from t where e = 2 '
    'order by a',
    'select case when a = 1 then 2 else 3 end, f(x, y) from t join u on '
    't.i = u.i; select 2',
    'insert into t (a, b) values (1, 2), (3, 4)',
]


def primed_trial(ctx, ref):
    """Fresh process whose FIRST library calls use unusual options (or
    fail): whatever is cached on first use must not shape later results."""
    rec, rng = ctx.rec, ctx.rng
    calls = []
    for _ in range(rng.randint(1, 3)):
        opts = {}
        for name in ('reindent', 'reindent_aligned', 'indent_tabs',
                     'comma_first', 'compact', 'indent_columns',
                     'indent_after_first', 'strip_comments',
                     'use_space_around_operators', 'strip_whitespace'):
            if rng.random() < 0.45:
                opts[name] = True
        if rng.random() < 0.5:
            opts['indent_width'] = rng.choice([1, 8])
        if rng.random() < 0.4:
            opts['wrap_after'] = rng.choice([1, 80])
        if rng.random() < 0.4:
            opts['keyword_case'] = rng.choice(options.CASES)
        if rng.random() < 0.3:
            opts['identifier_case'] = rng.choice(options.CASES)
        if rng.random() < 0.3:
            opts['output_format'] = rng.choice(['python', 'php'])
        if rng.random() < 0.3:
            opts['truncate_strings'] = 3
        text = rng.choice(PRIME_TEXTS)
        if rng.random() < 0.2:
            text = 'select * from ' + '(select * from ' * 120 + 't' \
                + ')' * 120
            opts['__low_recursion_limit__'] = True
        calls.append(['format', text, opts])
    rc, res, err = fresh(['primed', json.dumps({'calls': calls})])
    rec.case()
    if res is None or 'obs' not in res:
        rec.count('primed_trials_unreadable')
        return
    rec.monitor('history_differential')
    rec.count('primed_fresh_process_trials')
    if res['obs'] != ref:
        bad = [i for i in range(len(ref)) if res['obs'][i] != ref[i]]
        i = bad[0]
        rec.violation('primed-history', {'calls': calls, 'probe': i},
                      'in a fresh process whose first calls were %r, probe '
                      '%d (%s %r) gives %s, the plain fresh-process '
                      'reference is %s' % (
                          [c[2] for c in calls], i, c20_trial.PROBES[i][0],
                          c20_trial.PROBES[i][1][:40],
                          str(res['obs'][i])[:140], str(ref[i])[:140]),
                      key=('primed', i))
    rec.nontrivial(('primed', tuple(sorted(calls[0][2]))))


def shard(ctx):
    rec, rng = ctx.rec, ctx.rng
    rc, refres, err = fresh(['ref'])
    if refres is None or 'obs' not in refres:
        rec.inconclusive_('reference process failed: %s %s' % (
            err, (refres or {}).get('harness_error', '')[-300:]))
        return
    ref = refres['obs']
    # the probes themselves are a history: the same probes run in the
    # opposite order in another fresh process must give the same answers
    rc, rev, err = fresh(['ref', 'reverse'])
    if rev is None or 'obs' not in rev:
        rec.inconclusive_('reversed reference process failed: %s' % (err,))
        return
    rec.case()
    rec.monitor('history_differential')
    if rev['obs'] != ref:
        bad = [i for i in range(len(ref)) if rev['obs'][i] != ref[i]]
        i = bad[0]
        rec.violation('history', {'history': ['probes-in-reverse-order'],
                                  'probe': i},
                      'in a fresh process probe %d (%s %r) gives %s when the '
                      'other probes ran before it and %s when they ran after '
                      'it' % (i, c20_trial.PROBES[i][0],
                              c20_trial.PROBES[i][1][:40],
                              str(ref[i])[:120], str(rev['obs'][i])[:120]),
                      key=('h', 'probe-order', i))
    src = grammar_texts.Source(rng)
    k = 0
    while ctx.running():
        k += 1
        m = k % 7
        if m in (0, 1, 2):
            history_trial(ctx, ref, src)
        elif m == 3:
            concurrency_trial(ctx, src)
        elif m == 4:
            primed_trial(ctx, ref)
        else:
            first_call_trial(ctx, ref)


def replay(ctx, kind, case):
    rc, refres, err = fresh(['ref'])
    ref = refres['obs']
    if kind and kind.startswith('first-call'):
        for _ in range(10):
            rc, res, err = fresh(['first', json.dumps(case)])
            if res and res['violations']:
                ctx.rec.violation(kind, case, res['violations'][0])
                return
    else:
        ctx.rec.note('history/concurrency violations are replayed by '
                     're-running the check with the same VERIF_SEED')
