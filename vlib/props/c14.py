"""C14 — literal / quoted-name / comment bodies are opaque; keywords
classify by table."""
import re

import sqlparse
from sqlparse import keywords, lexer, tokens as T

from vlib import hostile, oracles

ID = 'C14'
LEVEL = 'exploration'
DECIDING = ['opaque_region', 'keyword_table', 'non_keyword_is_name']
RULE = ('(1) opacity: lexeme = opener + body + terminator for single-quoted '
        'strings (doubled quotes allowed), "names", `names`, $tag$ bodies, '
        '/* */ and -- comments (incl. hints); body = char soup over all code '
        'points minus the region terminator (minus backslash for quote-'
        'delimited regions, minus CR/LF for --); x left/right contexts of '
        'delimiters and whitespace that cannot extend the lexeme, in 20 % '
        'of the cases behind an unclosed opener of another region kind or '
        'closed regions of every kind; oracle: '
        'exactly one token starts at len(L), its value is the lexeme and '
        'its type the region type. (2) EVERY single-word entry of the nine '
        'keyword dictionaries x {upper, lower, capitalised, random mixed} x '
        '6 delimited contexts is one token typed by the first dedicated '
        'rule of SQL_REGEX that matches exactly the word, else by the first '
        'dictionary (documented registration order) listing it; generated '
        'non-dictionary words are Name. distinct_nontrivial = distinct '
        '(region kind, body) with a body containing a structural character '
        '+ distinct (word, casing, context)')
EXHAUSTIVE_PART = ('the dictionary-word table (part 2) is enumerated '
                   'completely on every run, sharded')
ASSUMPTIONS = [
    'dictionary registration order is the documented one: COMMON, ORACLE, '
    'MYSQL, PLPGSQL, HQL, MSACCESS, SNOWFLAKE, BIGQUERY, KEYWORDS',
    '"dedicated rule" = a rule of keywords.SQL_REGEX placed before the '
    'generic word rule whose match at the word is exactly the word',
]

DICT_ORDER = ['KEYWORDS_COMMON', 'KEYWORDS_ORACLE', 'KEYWORDS_MYSQL',
              'KEYWORDS_PLPGSQL', 'KEYWORDS_HQL', 'KEYWORDS_MSACCESS',
              'KEYWORDS_SNOWFLAKE', 'KEYWORDS_BIGQUERY', 'KEYWORDS']


def plan(tier):
    return {'shards': 16, 'budget_s': 22 if tier == 'quick' else 360}


LEFTS = ['', ' ', '(', ',', '=', '\n', ';', 'select ', '\t', '||', '( ',
         'x ', '1 ', '\r\n', ') ', ', ']
RIGHTS = ['', ' ', ')', ',', ';', '\n', ' from t', '\t', ' )', ' ,x',
          '\r\n', ' = 1']
STRUCT = set(";()'\"`$-/*#,.[]\\\n\r")


def body_soup(rng, forbid_chars='', forbid_subs=(), maxlen=40):
    if maxlen >= 40 and rng.random() < 0.002:
        unit = body_soup(rng, forbid_chars, forbid_subs, 12) + ' ; x '
        body = unit * (rng.choice([5000, 9000, 70000]) // len(unit))
        for c in forbid_chars:
            body = body.replace(c, '')
        for sub in forbid_subs:
            while sub in body:
                body = body.replace(sub, '')
        return body
    n = rng.choice([0, 1, 2, 3, 5, 8, 13, 20, maxlen])
    out = []
    for _ in range(n):
        x = rng.random()
        if x < 0.4:
            out.append(rng.choice(hostile.SPECIAL_CHARS))
        elif x < 0.65:
            out.append(rng.choice(hostile.MULTI_ATOMS))
        elif x < 0.8:
            out.append(chr(rng.randrange(0x110000)))
        else:
            out.append(chr(rng.randrange(32, 127)))
    body = ''.join(out)
    for c in forbid_chars:
        body = body.replace(c, '')
    for s in forbid_subs:
        while s in body:
            body = body.replace(s, '')
    return body


def make_region(rng):
    """(kind, lexeme, expected type, lefts, rights)."""
    kind = rng.choice(['str', 'str', 'qname', 'bname', 'dollar', 'ml', 'ml',
                       'sl', 'sl'])
    if kind == 'str':
        body = body_soup(rng, "'\\")
        if rng.random() < 0.3:
            # doubled inner quotes
            parts = [body_soup(rng, "'\\", maxlen=8) for _ in range(
                rng.randint(1, 3))]
            body = "''".join(parts + [body])
        return kind, "'" + body + "'", T.String.Single, LEFTS, \
            [r for r in RIGHTS]
    if kind == 'qname':
        body = body_soup(rng, '"\\')
        if body == '':
            body = 'q'
        return kind, '"' + body + '"', T.String.Symbol, LEFTS, RIGHTS
    if kind == 'bname':
        body = body_soup(rng, '`')
        if body == '':
            body = 'b'
        return kind, '`' + body + '`', T.Name, LEFTS, RIGHTS
    if kind == 'dollar':
        tag = rng.choice(['', '', 'a', 'body', '_t', 'T1', 'Äx'])
        if rng.random() < 0.04:
            # a tag of any length (63/64: identifier limits elsewhere)
            tag = rng.choice(['t', 'Tag_', 'é']) * rng.choice(
                [16, 31, 63, 64, 65, 128, 300])
        delim = '$' + tag + '$'
        body = body_soup(rng, '$' if rng.random() < 0.7 else '',
                         forbid_subs=(delim,))
        if body.endswith('$') or (delim in (body + delim)[:-1]):
            body = body.replace('$', '')
        if tag and tag.swapcase() != tag and rng.random() < 0.3:
            # the same tag in another letter case is not the terminator
            i = rng.randint(0, len(body))
            body = body[:i] + ' $' + tag.swapcase() + '$ ' + body[i:]
        lefts = [l for l in LEFTS if not re.search(r'[\w"$]$', l)]
        return kind, delim + body + delim, T.Literal, lefts, RIGHTS
    if kind == 'ml':
        body = body_soup(rng, '', forbid_subs=('*/',))
        x = rng.random()
        if x < 0.15:
            body += '*' * rng.randint(1, 4)      # /* a **/ , /***/
        elif x < 0.25:
            body = '*' * rng.randint(1, 3) + body
        elif x < 0.3:
            body = '/' + body                    # /*/ x */
        while '*/' in body:
            body = body.replace('*/', '*')
        tt = T.Comment.Multiline.Hint if body.startswith('+') \
            else T.Comment.Multiline
        return kind, '/*' + body + '*/', tt, \
            [l for l in LEFTS if l != '||'], RIGHTS
    body = body_soup(rng, '\r\n')
    end = rng.choice(['\n', '\n', '\r\n', '\r', ''])
    tt = T.Comment.Single.Hint if body.startswith('+') else T.Comment.Single
    rights = [''] if end == '' else [r for r in RIGHTS
                                     if not (end == '\r'
                                             and r.startswith('\n'))]
    lefts = [l for l in LEFTS if l != '||']
    return 'sl', '--' + body + end, tt, lefts, rights


# Text in front of the left context: openers of OTHER regions that are never
# closed (they lex as operators / placeholders / errors on their own) and
# closed regions of every kind. None contains a quote character, and each
# is used only when the lexeme cannot close it.
NOISE = [('$zz$ x ', '$zz$'), ('$_q$;', '$_q$'), ('/* x ', '*/'),
         ('/*+ h ', '*/'), ('$$ ', '$$'), ('$Tag$ y $tag$ ', '$Tag$'),
         ('a[1 ', ']'), ('f(( ', None), ('x ] ) ', None),
         ('$a$ b $a$ ', None), ('/* c */ ', None), ('-- c\n', None),
         ('`q` ', '`'), ('@v :p ?1 %s ', None), ('1e ', None), ('0x ', None),
         ('E ', None), ('$1 $x ', None), ('/ * ', None), ('- - ', None)]


def check_region(rec, rng):
    kind, lexeme, want_tt, lefts, rights = make_region(rng)
    L, R = rng.choice(lefts), rng.choice(rights)
    if rng.random() < 0.2:
        pre, closer = rng.choice(NOISE)
        if (closer is None or closer.lower() not in lexeme.lower()) \
                and not (L == '' or L[-1] in '$' or L.startswith('||')):
            L = pre + L
            rec.count('regions_behind_unclosed_or_closed_other_regions')
    if rng.random() < 0.004:
        # the region straddles a typical buffer size (block-wise readers)
        T_ = rng.choice([1024, 4096, 8192, 16384, 65536])
        pad = max(0, T_ - rng.randint(0, max(1, len(lexeme))) - len(L))
        L = rng.choice(['\n', ' ']) * pad + L
        rec.count('regions_straddling_a_buffer_size')
    text = L + lexeme + R
    rec.case()
    rec.monitor('opaque_region')
    case = {'text': text, 'kind': kind, 'L': L, 'lexeme': lexeme, 'R': R,
            'want': str(want_tt)}
    judge_region(rec, case, want_tt)
    if STRUCT & set(lexeme[1:-1]):
        rec.nontrivial((kind, lexeme[:40]))
    rec.hist('region_kind', kind)
    if rec.evaluations % 2999 == 1:
        rec.sample({'kind': kind, 'text': text[:120]})


def judge_region(rec, case, want_tt):
    text, L, lexeme = case['text'], case['L'], case['lexeme']
    try:
        toks = list(lexer.tokenize(text))
    except Exception as exc:
        rec.violation('lexer-raised', case, repr(exc), key='exc')
        return
    off = 0
    hit = None
    for tt, v in toks:
        if off == len(L):
            hit = (tt, v)
            break
        if off > len(L):
            break
        off += len(v)
    if hit is None:
        rec.violation('opaque-' + case['kind'], case,
                      'no token starts at the region start %d (a token '
                      'straddles it)' % len(L), key=case['kind'] + 'start')
    elif hit[1] != lexeme:
        rec.violation('opaque-' + case['kind'], case,
                      'token at the region start is %r (%s), expected the '
                      'whole lexeme %r' % (hit[1][:50], hit[0], lexeme[:50]),
                      key=case['kind'] + 'value')
    elif hit[0] is not want_tt:
        rec.violation('opaque-' + case['kind'], case,
                      'lexeme %r has type %s, expected %s' % (
                          lexeme[:50], hit[0], want_tt),
                      key=case['kind'] + 'type')


# ---- keyword table ---------------------------------------------------------
KW_CONTEXTS = [(' ', ' '), ('(', ')'), ('', ''), (',', ','), ('\n', ';'),
               ('=', ' ')]
# behind the first word of a multi-word rule (ORDER BY, PRIMARY KEY, NOT
# NULL, END IF ...): the word must still be a token of its own unless the
# reference rules really join the two
KW_AFTER_WORD = ['order ', 'group ', 'primary ', 'not ', 'end ', 'union ',
                 'left ', 'double ', 'handler ', 'create or ', 'nulls ',
                 'asc nulls ', 'lateral view ', 'at time ', 'go ', 'inner ']
WORD_RE = re.compile(r'^\w[$#\w]*$')


def dictionaries():
    out = []
    for name in DICT_ORDER:
        d = getattr(keywords, name, None)
        if isinstance(d, dict):
            out.append((name, d))
    # dictionaries the documented order does not know go last
    for name in sorted(dir(keywords)):
        if name.startswith('KEYWORDS') and name not in DICT_ORDER \
                and isinstance(getattr(keywords, name), dict):
            out.append((name, getattr(keywords, name)))
    return out


def word_table():
    """[(WORD, expected dictionary type)] for every single-word entry."""
    seen = {}
    skipped = []
    for name, d in dictionaries():
        for w, tt in d.items():
            if w.upper() in seen:
                continue
            if not WORD_RE.match(w):
                skipped.append(w)
                seen[w.upper()] = None
                continue
            seen[w.upper()] = tt
    table = sorted((w, tt) for w, tt in seen.items() if tt is not None)
    return table, skipped


def generic_rule_index():
    for i, (rx, tt) in enumerate(keywords.SQL_REGEX):
        if tt is keywords.PROCESS_AS_KEYWORD:
            return i
    return len(keywords.SQL_REGEX)


def expected_type(text, pos, word, dict_tt):
    """Type by the first dedicated rule matching exactly the word, else the
    dictionary type; None = not judged (an earlier rule takes a different
    extent)."""
    gi = generic_rule_index()
    rules = oracles.reference_rules()
    for i, (rx, tt) in enumerate(rules):
        m = rx.match(text, pos)
        if not m:
            continue
        if i == gi:
            if m.end() - pos == len(word):
                return dict_tt
            return None
        if m.end() - pos == len(word):
            return tt
        return None
    return None


def casings(rng, w):
    mixed = ''.join(c.upper() if rng.random() < 0.5 else c.lower()
                    for c in w)
    return [w.upper(), w.lower(), w.capitalize(), mixed]


# legitimate joins of a starter word with the following word (static: the
# oracle must not ask the rule table under test)
STATIC_JOINS = {
    'order': {'BY'}, 'group': {'BY'}, 'primary': {'KEY'},
    'not': {'NULL', 'LIKE', 'ILIKE', 'RLIKE', 'REGEXP'},
    'end': {'IF', 'LOOP', 'WHILE'}, 'union': {'ALL'},
    'left': {'JOIN'}, 'inner': {'JOIN'}, 'double': {'PRECISION'},
    'handler': {'FOR'}, 'create or': {'REPLACE'},
    'nulls': {'FIRST', 'LAST'}, 'asc nulls': {'FIRST', 'LAST'},
    'lateral view': {'EXPLODE', 'INLINE', 'PARSE_URL_TUPLE', 'POSEXPLODE',
                     'STACK'},
    'at time': {'ZONE'}, 'go': set(),
}


def boundary_at(text, pos):
    """Does the reference rule table put a token boundary at pos?"""
    off = 0
    while off < pos:
        idx, tt, m = oracles.first_rule_at(text, off)
        off = m.end() if m is not None else off + 1
    return off == pos


def check_word(rec, rng, w, dict_tt):
    for ci, spelled in enumerate(casings(rng, w)):
        ctxs = list(KW_CONTEXTS)
        if ci == 0:
            # upper-case spelling behind every multi-word starter
            ctxs += [(L, ' ') for L in KW_AFTER_WORD]
        else:
            ctxs.append((rng.choice(KW_AFTER_WORD),
                         rng.choice([' ', ';', ''])))
        for L, R in ctxs:
            if len(L) > 1 and spelled.upper() in STATIC_JOINS.get(
                    L.strip(), ()):
                rec.count('words_not_judged_(joined_by_a_multi_word_rule)')
                continue
            text = L + spelled + R
            rec.case()
            want = expected_type(text, len(L), spelled, dict_tt)
            if want is None:
                rec.count('words_not_judged_(other_rule_extent)')
                continue
            rec.monitor('keyword_table')
            toks = list(lexer.tokenize(text))
            off = 0
            hit = None
            for tt, v in toks:
                if off == len(L):
                    hit = (tt, v)
                    break
                off += len(v)
            case = {'text': text, 'word': w, 'L': L, 'R': R,
                    'want': str(want), 'dict_type': str(dict_tt)}
            if hit is None or hit[1] != spelled:
                rec.violation('keyword-split', case,
                              'word %r is not one token: %r' % (
                                  spelled, [v for _, v in toks]),
                              key='split' + w[:3])
            elif hit[0] is not want:
                rec.violation('keyword-type', case,
                              'word %r in context %r_%r is %s, table says %s'
                              % (spelled, L, R, hit[0], want),
                              key='type' + str(want) + str(hit[0]))
            rec.nontrivial((spelled, L, R))


# multi-word keywords written without the blank are ordinary names
FUSED = ['HANDLERFOR', 'ORDERBY', 'GROUPBY', 'NOTNULL', 'UNIONALL', 'ENDIF',
         'ENDLOOP', 'ENDWHILE', 'LEFTJOIN', 'LEFTOUTERJOIN', 'INNERJOIN',
         'CROSSJOIN', 'DOUBLEPRECISION', 'PRIMARYKEY', 'CREATEORREPLACE',
         'NULLSFIRST', 'NULLSLAST', 'ASCNULLSFIRST', 'DESCNULLSLAST', 'GO2',
         'NOTLIKE', 'NOTILIKE', 'NOTREGEXP', 'LATERALVIEWEXPLODE',
         'ATTIMEZONE', 'UNIONX', 'XJOIN', 'JOINX', 'ENDX', 'CASEX', 'ASX',
         'INX', 'FROMX', 'VALUESX', 'USINGX', 'LIKEX', 'ASCX', 'DESCX']


def check_fused(rec, rng, allkw):
    for w in FUSED:
        if w in allkw:
            continue
        spelled = rng.choice([w, w.lower(), w.capitalize()])
        for L, R in KW_CONTEXTS:
            text = L + spelled + R
            rec.case()
            rec.monitor('non_keyword_is_name')
            toks = list(lexer.tokenize(text))
            off = 0
            hit = None
            for tt, v in toks:
                if off == len(L):
                    hit = (tt, v)
                    break
                off += len(v)
            if hit is None or hit[1] != spelled or hit[0] is not T.Name:
                rec.violation('nonword', {'text': text, 'word': w, 'L': L,
                                          'R': R, 'want': 'Token.Name'},
                              'word %r (in no dictionary) in context %r_%r '
                              'lexes as %r' % (spelled, L, R,
                                               [(str(a), b) for a, b in
                                                toks][:4]), key='fused' + w)


PHRASES = ['LEFT OUTER JOIN', 'RIGHT OUTER JOIN', 'FULL OUTER JOIN',
           'LEFT JOIN', 'INNER JOIN', 'CROSS JOIN', 'NATURAL JOIN',
           'LEFT INNER JOIN', 'STRAIGHT JOIN', 'END IF', 'END LOOP',
           'END WHILE', 'NOT NULL', 'ASC NULLS FIRST', 'DESC NULLS LAST',
           'NULLS FIRST', 'NULLS LAST', 'UNION ALL', 'CREATE OR REPLACE',
           'DOUBLE PRECISION', 'GROUP BY', 'ORDER BY', 'PRIMARY KEY',
           'HANDLER FOR', 'NOT LIKE', 'NOT ILIKE', 'NOT RLIKE', 'NOT REGEXP',
           'LATERAL VIEW EXPLODE', 'LATERAL VIEW INLINE', 'GO 2']


def check_phrases(rec, rng, allkw):
    """A multi-word keyword with one inner blank removed is not that
    keyword: the text must not come back as one token."""
    for ph in PHRASES:
        words = ph.split()
        for cut in range(len(words) - 1):
            fused = ' '.join(words[:cut]) + (' ' if cut else '') \
                + words[cut] + words[cut + 1] \
                + (' ' if cut + 2 < len(words) else '') \
                + ' '.join(words[cut + 2:])
            if ' ' not in fused and fused.upper() in allkw:
                continue         # e.g. NOTNULL is a dictionary word itself
            spelled = rng.choice([fused, fused.lower()])
            for L, R in ((' ', ' '), ('', ''), ('(', ')')):
                text = L + spelled + R
                rec.case()
                rec.monitor('non_keyword_is_name')
                toks = list(lexer.tokenize(text))
                if any(v == spelled and tt is not T.Name for tt, v in toks):
                    rec.violation('fused-phrase', {'text': text,
                                                   'word': spelled, 'L': L,
                                                   'R': R, 'want': 'split'},
                                  '%r (the keyword %r with a blank removed) '
                                  'is lexed as one token' % (spelled, ph),
                                  key='phrase' + ph)


def check_phrase_suffix(rec, rng):
    """A multi-word keyword directly followed by a word character is not
    that keyword (its last word is a longer word)."""
    for ph in PHRASES:
        for suffix in ('x', '_1', '9'):
            spelled = rng.choice([ph, ph.lower()]) + suffix
            text = rng.choice(['', ' ', '(']) + spelled + ' '
            rec.case()
            rec.monitor('non_keyword_is_name')
            toks = list(lexer.tokenize(text))
            for tt, v in toks:
                if ' '.join(v.upper().split()) == ph and ' ' in ph:
                    rec.violation('phrase-suffix', {'text': text,
                                                    'word': spelled, 'L': '',
                                                    'R': '', 'want': 'split'},
                                  'in %r the keyword %r is lexed as a token '
                                  'although a word character follows'
                                  % (text, ph), key='suffix' + ph)
                    break


def check_nonword(rec, rng, allkw):
    for _ in range(50):
        w = rng.choice('abcdefghijklmnopqrstuvwxyzÄé_') + ''.join(
            rng.choice('abcdefghijklmnopqrstuvwxyz0123456789_$#')
            for _ in range(rng.randint(1, 10)))
        if w.upper() not in allkw:
            break
    else:
        return
    L, R = rng.choice(KW_CONTEXTS)
    text = L + w + R
    rec.case()
    want = expected_type(text, len(L), w, T.Name)
    if want is None:
        return
    rec.monitor('non_keyword_is_name')
    toks = list(lexer.tokenize(text))
    off = 0
    for tt, v in toks:
        if off == len(L):
            if v != w or tt is not want:
                rec.violation('nonword', {'text': text, 'word': w, 'L': L,
                                          'R': R, 'want': str(want)},
                              'non-dictionary word %r lexed as %r (%s), '
                              'expected %s' % (w, v, tt, want), key='nonword')
            break
        off += len(v)


def shard(ctx):
    rec, rng = ctx.rec, ctx.rng
    table, skipped = word_table()
    rec.count('dictionary_words_total', len(table) if ctx.shard == 0 else 0)
    if ctx.shard == 0:
        rec.note('multi-word / hyphenated dictionary entries not judged: %r'
                 % sorted(set(skipped)))
        rec.note('dictionaries in order: %s' % [n for n, _ in dictionaries()])
    for i in range(ctx.shard, len(table), ctx.nshards):
        w, tt = table[i]
        check_word(rec, rng, w, tt)
    allkw = {w for w, _ in table}
    if ctx.shard % 4 == 0:
        check_fused(rec, rng, allkw)
        check_phrases(rec, rng, allkw)
        check_phrase_suffix(rec, rng)
    n = 0
    while ctx.running():
        n += 1
        if n % 10 == 0:
            check_nonword(rec, rng, allkw)
        else:
            check_region(rec, rng)


def replay(ctx, kind, case):
    rec = ctx.rec
    if 'lexeme' in case:
        want = None
        for tt in (T.String.Single, T.String.Symbol, T.Name, T.Literal,
                   T.Comment.Multiline, T.Comment.Multiline.Hint,
                   T.Comment.Single, T.Comment.Single.Hint):
            if str(tt) == case['want']:
                want = tt
        judge_region(rec, case, want)
    else:
        toks = list(lexer.tokenize(case['text']))
        off = 0
        for tt, v in toks:
            if off == len(case['L']):
                if str(tt) != case['want'] or v.upper() != \
                        case['word'].upper():
                    rec.violation(kind, case, 'replay: %r is %s, expected %s'
                                  % (v, tt, case['want']))
                break
            off += len(v)


def witness(w):
    from vlib import common
    rec = common.Recorder(ID)
    judge_region(rec, w, T.Literal if w['want'] == 'Token.Literal' else None)
    if rec.violations:
        return True, rec.violations[0]['detail']
    return False, ''
