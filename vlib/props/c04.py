"""C04 — split() partitions the input and agrees with parse()."""
import sqlparse

from vlib import hostile, oracles
from vlib.props import grammar_texts

ID = 'C04'
LEVEL = 'exploration'
DECIDING = ['split_partition', 'split_eq_parse', 'resplit']
RULE = ('inputs: token soup rich in ; GO block keywords and comments, char '
        'soup incl. exotic whitespace (\\x1c-\\x1f, \\x85, \\xa0), mutated '
        'corpus files, grammar scripts with every separator, all atom '
        'sequences <=2/<=3; oracle: pieces non-empty, stripped, found in '
        'order at increasing offsets with only whitespace between; equal to '
        '[str(s).strip() for s in parse()]; split(piece) == [piece]. '
        'distinct_nontrivial = distinct (piece count, leading words of the '
        'pieces) among inputs with >= 2 pieces')
ASSUMPTIONS = ['observation at sqlparse.split and sqlparse.parse']


def plan(tier):
    return {'shards': 16, 'budget_s': 28 if tier == 'quick' else 420}


def kf_c04_1(piece, again):
    """KF-C04-1: strip() removed the blank that made `# ` a comment opener
    at the very end of the piece; re-splitting lexes the `#` differently."""
    return piece.endswith('#') and sqlparse.split(piece + ' ') == [piece]


def piece_starts(text, pieces):
    out = []
    j = 0
    for p in pieces:
        while j < len(text) and text[j].isspace():
            j += 1
        if not text.startswith(p, j):
            return None
        out.append(j)
        j += len(p)
    return out


def kf_c04_2(text, j, piece):
    """KF-C04-2: the piece starts directly (no whitespace) after the
    previous statement's last character -- possible after a 'GO n' batch
    separator -- and its first token's rule has a look-behind, so the piece
    lexes differently without that character."""
    if j == 0 or text[j - 1].isspace():
        return False
    alone = list(sqlparse.lexer.tokenize(piece))
    ctxt = list(sqlparse.lexer.tokenize(text[j - 1:j + len(piece)]))
    # drop the context character's own token(s)
    k = 0
    n = 0
    while k < len(ctxt) and n < 1:
        n += len(ctxt[k][1])
        k += 1
    return n == 1 and ctxt[k:] != alone


def check_text(ctx, kind, text):
    rec = ctx.rec
    rec.case()
    case = {'text': text, 'source': kind}
    try:
        pieces = sqlparse.split(text)
        stmts = sqlparse.parse(text)
    except sqlparse.exceptions.SQLParseError:
        rec.count('sqlparseerror')
        return
    except Exception:
        rec.count('other_exception_(C07)')
        return
    rec.monitor('split_partition')
    err = oracles.split_partition(text, pieces)
    if err:
        rec.violation('partition', case, err, key=err[:24])
    rec.monitor('split_eq_parse')
    want = [str(s).strip() for s in stmts]
    if pieces != want:
        rec.violation('split-vs-parse', case,
                      'split gives %d pieces %r, parse gives %d statements %r'
                      % (len(pieces), [p[:30] for p in pieces[:4]],
                         len(want), [p[:30] for p in want[:4]]),
                      key='n' if len(pieces) != len(want) else 'text')
    positions = piece_starts(text, pieces)
    for k, p in enumerate(pieces[:8]):
        rec.monitor('resplit')
        try:
            again = sqlparse.split(p)
        except Exception:
            continue
        if again != [p]:
            fid = None
            if kf_c04_1(p, again):
                fid = ctx.findings.attr('KF-C04-1')
            elif positions and kf_c04_2(text, positions[k], p):
                fid = ctx.findings.attr('KF-C04-2')
            rec.violation('resplit', case,
                          'split(%r) = %r' % (p[:60], [a[:40] for a in
                                                       again[:3]]),
                          key=len(again), finding=fid)
    if len(pieces) >= 2:
        rec.nontrivial((len(pieces),
                        tuple(p.split(None, 1)[0][:12].lower() if p.split()
                              else '' for p in pieces[:6])))
    rec.hist('pieces', min(len(pieces), 8))
    rec.hist('source', kind)
    if rec.evaluations % 1499 == 1:
        rec.sample({'source': kind, 'text': text[:240],
                    'pieces': [p[:60] for p in pieces[:5]]})


SEP_ITEMS = [';', ';', ';', 'GO', 'go', 'GO 2', ';;', '; --c\n', ';/*c*/',
             '; /* c */ ', ';\n', ' ;', 'begin', 'end', 'declare', 'create',
             'END;', 'if', 'end if', 'case', 'loop', 'end loop']


def sep_soup(rng):
    n = rng.randint(1, 10)
    items = []
    for _ in range(n):
        if rng.random() < 0.45:
            items.append(rng.choice(SEP_ITEMS))
        else:
            items.append(hostile.token_soup(rng, maxitems=4))
    return rng.choice([' ', '\n', '', ' ']).join(items)


STATE_FRAGS = ['begin;', 'begin transaction;', 'BEGIN;', 'commit;', 'end;',
               'create procedure p()', 'create or replace function f() '
               'returns int', 'create trigger tr before insert on t for each '
               'row', 'create table t (a int);', 'begin', 'end', 'end;',
               'if x > 0 then', 'end if;', 'else', 'while a < 3 do',
               'end while;', 'loop', 'end loop;', 'declare x int;', 'declare',
               'case when a then 1 end', 'case x when 1 then', 'end case;',
               'update t set a = 1;', 'select 1;', 'select 1', 'set x = 2;',
               'return 1;', 'for i in 1..3 loop', 'drop table if exists t;',
               "select 'a;b';", '/* c; */', '-- c;\n', 'start transaction;',
               'rollback;', 'insert into t values (1);', ';']


def state_soup(rng):
    """Statements and statement fragments that drive the splitter's block
    state (BEGIN depth, CREATE, DECLARE, IF/CASE/LOOP levels) in random
    order: whatever one statement leaves behind must not change how the
    next ones are cut (each piece must survive re-splitting on its own)."""
    n = rng.randint(2, 9)
    sep = rng.choice([' ', '\n', '\n', '  '])
    return sep.join(rng.choice(STATE_FRAGS) for _ in range(n))


def shard(ctx):
    rec, rng = ctx.rec, ctx.rng
    maxlen = 2 if ctx.tier == 'quick' else 3
    total = hostile.atom_count(maxlen)
    for idx in range(ctx.shard, total, ctx.nshards):
        check_text(ctx, 'atoms<=%d' % maxlen, hostile.atom_sequence_at(idx))
    gen = grammar_texts.Source(rng)
    k = 0
    while ctx.running():
        k += 1
        if k % 2500 == 900:
            check_text(ctx, 'bulk', hostile.bulk_statement(rng))
        elif k % 2500 == 1900:
            check_text(ctx, 'many', hostile.many_statements(rng))
        x = rng.random()
        if x < 0.15:
            kind, text = 'statesoup', state_soup(rng)
        elif x < 0.3:
            kind, text = 'sepsoup', sep_soup(rng)
        elif x < 0.65:
            kind, text = hostile.hostile_text(rng)
        else:
            kind, text = 'grammar', hostile.decorate(rng, gen.text())
        check_text(ctx, kind, text)


def replay(ctx, kind, case):
    check_text(ctx, case.get('source', 'replay'), case['text'])


def witness(w):
    text = w['input']
    pieces = sqlparse.split(text)
    for p in pieces:
        again = sqlparse.split(p)
        if again != [p]:
            return True, 'split(%r) = %r' % (p, again)
    return False, ''
