"""C01 — the lexer is total and lossless."""
from sqlparse import lexer, tokens as T

from vlib import hostile, oracles
from vlib.props import grammar_texts

ID = 'C01'
LEVEL = 'exploration'
DECIDING = ['lex_partition', 'error_iff_no_rule', 'interleaved_generators']
RULE = ('inputs: char soup over all code points (NUL, C0 controls, lone '
        'surrogates, astral), token soup, bracket/keyword soup, mutated '
        'tests/files/*.sql, grammar scripts, and EVERY sequence of <=2 '
        '(quick) / <=3 (thorough) atoms of a 40-atom opener/terminator set; '
        'every 10th input is also tokenized while a second tokenization is '
        'consumed alternately (two live generators of the shared lexer), '
        'and every 10th a text never seen before is tokenized part-way '
        '(dropped / closed / suspended / a second run started) and then '
        'completely, twice. '
        'distinct_nontrivial = distinct token-type sequences of length >= 2 '
        'observed on the real lexer output')
EXHAUSTIVE_PART = ('atom sequences up to the stated length are enumerated '
                   'completely (sharded); everything else is sampled')
ASSUMPTIONS = [
    'the oracle recompiles keywords.SQL_REGEX with IGNORECASE|UNICODE to '
    'decide "no lexical rule recognises this character"',
    'observation is at sqlparse.lexer.tokenize(text)',
]


def plan(tier):
    return {'shards': 16, 'budget_s': 25 if tier == 'quick' else 420}


def check_text(rec, kind, text, full=True):
    rec.case()
    case = {'text': text, 'source': kind}
    try:
        toks = list(lexer.tokenize(text))
    except Exception as exc:
        rec.monitor('lex_partition')
        rec.violation('lexer-raised', case, '%s: %s' % (
            type(exc).__name__, exc), key=type(exc).__name__)
        return None
    rec.monitor('lex_partition')
    err = oracles.lex_partition(text, toks)
    if err:
        rec.violation('not-a-partition', case, err,
                      key=err.split(' at ')[0][:30])
        return toks
    if full:
        hist = {}
        rec.monitor('error_iff_no_rule')
        err = oracles.error_tokens_justified(text, toks, hist)
        if err:
            rec.violation('error-token-rule', case, err, key=err[:25])
        for k, v in hist.items():
            rec.hist('rule_hits', k, v)
    types = tuple(str(tt) for tt, _ in toks)
    if len(types) >= 2:
        rec.nontrivial(types[:64])
    if any(tt is T.Error for tt, _ in toks):
        rec.count('inputs_with_error_token')
    if rec.evaluations % 997 == 1:
        rec.sample({'source': kind, 'text': text[:200],
                    'tokens': [(str(tt), v[:30]) for tt, v in toks[:12]]})
    rec.hist('source', kind)
    return toks


def check_interleaved(rec, a, b):
    """Two tokenizations alive at the same time, consumed alternately (lazy
    generators of the process-wide lexer): each must still partition its own
    text."""
    rec.case()
    rec.monitor('interleaved_generators')
    ga, gb = lexer.tokenize(a), lexer.tokenize(b)
    ta, tb = [], []
    done_a = done_b = False
    try:
        while not (done_a and done_b):
            if not done_a:
                try:
                    ta.append(next(ga))
                except StopIteration:
                    done_a = True
            if not done_b:
                try:
                    tb.append(next(gb))
                    tb.append(next(gb))
                except StopIteration:
                    done_b = True
    except Exception as exc:
        rec.violation('interleaved-raised', {'text': a, 'other': b},
                      '%s: %s' % (type(exc).__name__, exc), key='ilexc')
        return
    for text, toks, other in ((a, ta, b), (b, tb, a)):
        err = oracles.lex_partition(text, toks)
        if err:
            rec.violation('interleaved-not-a-partition',
                          {'text': text, 'other': other},
                          'with a second tokenization consumed alternately: '
                          + err, key='il')
            return


def check_repeat(rec, rng, text):
    """The same text tokenized again after an earlier tokenization of it
    was abandoned part-way (dropped, closed or left suspended), and twice at
    the same time: every complete run must partition the text."""
    rec.case()
    rec.monitor('interleaved_generators')
    mode = rng.choice(['dropped', 'closed', 'suspended', 'twice'])
    try:
        g = lexer.tokenize(text)
        k = rng.choice([0, 1, 2, 3, 5, 8])
        part = []
        for _ in range(k):
            try:
                part.append(next(g))
            except StopIteration:
                break
        if mode == 'dropped':
            del g
        elif mode == 'closed':
            g.close()
        if mode == 'twice':
            g2 = lexer.tokenize(text)
            second = [next(g2, None)]
            rest = list(g)
            second = [t for t in second if t is not None] + list(g2)
            runs = [part + rest, second]
        else:
            runs = [list(lexer.tokenize(text)), list(lexer.tokenize(text))]
    except Exception as exc:
        rec.violation('interleaved-raised', {'text': text, 'mode': mode},
                      '%s: %s' % (type(exc).__name__, exc), key='rpexc')
        return
    for toks in runs:
        err = oracles.lex_partition(text, toks)
        if err:
            rec.violation('repeated-not-a-partition',
                          {'text': text, 'mode': mode},
                          'tokenizing the same text again (earlier run %s '
                          'after %d tokens): %s' % (mode, k, err), key='rp')
            return
    rec.hist('repeat_mode', mode)


def shard(ctx):
    rec, rng = ctx.rec, ctx.rng
    # 1. exhaustive atom enumeration, sharded by index
    maxlen = 2 if ctx.tier == 'quick' else 3
    total = hostile.atom_count(maxlen)
    for idx in range(ctx.shard, total, ctx.nshards):
        check_text(rec, 'atoms<=%d' % maxlen, hostile.atom_sequence_at(idx),
                   full=(idx % 7 == 0))
    rec.count('atom_sequences_enumerated',
              len(range(ctx.shard, total, ctx.nshards)))
    # 2. sampled hostile workloads until the budget is used
    gen = grammar_texts.Source(rng)
    i = 0
    while ctx.running():
        i += 1
        x = rng.random()
        if x < 0.85:
            kind, text = hostile.hostile_text(rng)
        else:
            kind, text = 'grammar', hostile.decorate(rng, gen.text())
        check_text(rec, kind, text, full=(i % 3 == 0))
        if i % 400 == 200:
            # one token of 3-70 K characters
            check_text(rec, 'longtoken', hostile.long_token(rng), full=True)
        if i % 10 == 0:
            check_interleaved(rec, text, hostile.hostile_text(rng)[1])
        elif i % 10 == 5:
            # a text this process has not tokenized before
            check_repeat(rec, rng, hostile.hostile_text(rng)[1])


def replay(ctx, kind, case):
    if 'other' in case:
        check_interleaved(ctx.rec, case['text'], case['other'])
    elif 'mode' in case:
        import random
        for k in range(40):
            check_repeat(ctx.rec, random.Random(k), case['text'])
    else:
        check_text(ctx.rec, case.get('source', 'replay'), case['text'])
