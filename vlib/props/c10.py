"""C10 — requested layout normal forms are actually achieved."""
import sqlparse
from sqlparse import tokens as T
from sqlparse.exceptions import SQLParseError

from vlib import fmtutil, options, oracles

ID = 'C10'
LEVEL = 'exploration'
DECIDING = ['strip_whitespace_nf', 'operators_nf', 'reindent_nf',
            'fixed_point']
RULE = ('grammar scripts (comments, hints, every whitespace spelling, '
        'nesting) x {strip_whitespace; use_space_around_operators; reindent '
        'with every combination of indent_width, indent_tabs, '
        'indent_after_first, indent_columns, wrap_after, comma_first, '
        'compact}; normal-form predicates are evaluated on the re-lexed '
        'output (whitespace runs, blanks next to parentheses, whitespace '
        'around Operator tokens, clause keywords first on their line located '
        'by significant-token index, no line ending in a blank) and the '
        'first two forms are re-formatted to check the fixed point. '
        'distinct_nontrivial = distinct (option set, statement kinds, '
        'feature set) with >= 8 significant tokens')
ASSUMPTIONS = [
    'clause keywords are the input tokens the lexer types Keyword with '
    'normalised value FROM, *JOIN, WHERE, AND, OR (not the AND of a '
    'BETWEEN), GROUP BY, ORDER BY, HAVING, LIMIT, UNION [ALL], EXCEPT, SET',
    'a parenthesis with a comment as direct neighbour is exempt from the '
    'blank-next-to-parenthesis clause, as the property states',
    'known-finding classes: D8 (quote inside a comment) and D13 (a comment '
    'group owns the line break after it): a violation on a script with '
    'comments is attributed to D13 only if the same script with every '
    'comment replaced by a blank passes; half of the workload is '
    'comment-free',
]


def plan(tier):
    return {'shards': 16, 'budget_s': 35 if tier == 'quick' else 480}


def lex_with_offsets(text):
    out = []
    pos = 0
    for tt, v in sqlparse.lexer.tokenize(text):
        out.append((tt, v, pos))
        pos += len(v)
    return out


def is_ws(tt):
    return tt in T.Whitespace


def is_comment(tt):
    return tt in T.Comment


# ---- strip_whitespace ------------------------------------------------------
def nf_strip_whitespace(out):
    if out != out.strip():
        return 'output has leading/trailing whitespace: %r...%r' % (
            out[:10], out[-10:])
    toks = lex_with_offsets(out)
    n = len(toks)
    for i, (tt, v, pos) in enumerate(toks):
        if is_ws(tt):
            if i + 1 < n and is_ws(toks[i + 1][0]):
                return 'run of two whitespace characters at offset %d: %r' % (
                    pos, out[max(0, pos - 15):pos + 15])
        if tt is T.Punctuation and v in '()':
            # comment as neighbour (ignoring whitespace) on either side?
            def neighbour(step):
                j = i + step
                while 0 <= j < n and is_ws(toks[j][0]):
                    j += step
                return toks[j][0] if 0 <= j < n else None
            near_comment = any(
                nb is not None and is_comment(nb)
                for nb in (neighbour(-1), neighbour(1)))
            if near_comment:
                continue
            if v == '(' and i + 1 < n and is_ws(toks[i + 1][0]):
                return 'whitespace after ( at offset %d: %r' % (
                    pos, out[max(0, pos - 15):pos + 15])
            if v == ')' and i > 0 and is_ws(toks[i - 1][0]):
                return 'whitespace before ) at offset %d: %r' % (
                    pos, out[max(0, pos - 15):pos + 15])
    return None


# ---- use_space_around_operators -------------------------------------------
def nf_operators(out):
    toks = lex_with_offsets(out)
    n = len(toks)
    for i, (tt, v, pos) in enumerate(toks):
        if tt in T.Operator:
            if i > 0 and not is_ws(toks[i - 1][0]):
                return 'operator %r at offset %d has no whitespace before ' \
                    'it: %r' % (v, pos, out[max(0, pos - 15):pos + 15])
            if i + 1 < n and not is_ws(toks[i + 1][0]):
                return 'operator %r at offset %d has no whitespace after ' \
                    'it: %r' % (v, pos, out[max(0, pos - 15):pos + 15])
    return None


# ---- reindent -------------------------------------------------------------
CLAUSE_WORDS = {'FROM', 'WHERE', 'AND', 'OR', 'GROUP BY', 'ORDER BY',
                'HAVING', 'LIMIT', 'UNION', 'UNION ALL', 'EXCEPT', 'SET'}


def clause_indices(text):
    """Indices (in the significant-token stream of the input) of the clause
    keywords."""
    idx = []
    k = -1
    pending_between = 0
    for tt, v in sqlparse.lexer.tokenize(text):
        if is_ws(tt):
            continue
        k += 1
        if tt is not T.Keyword:
            continue
        norm = ' '.join(v.upper().split())
        if norm == 'BETWEEN':
            pending_between += 1
            continue
        if norm == 'AND' and pending_between:
            pending_between -= 1
            continue
        if norm in CLAUSE_WORDS or norm.endswith('JOIN'):
            idx.append((k, norm))
    return idx


def nf_reindent(text, out):
    want = clause_indices(text)
    toks = [(tt, v, pos) for tt, v, pos in lex_with_offsets(out)
            if not is_ws(tt)]
    for k, norm in want:
        if k >= len(toks):
            return 'output has fewer significant tokens than the input'
        tt, v, pos = toks[k]
        if ' '.join(v.upper().split()) != norm:
            return None     # token streams differ: C06's business
        j = pos - 1
        while j >= 0 and out[j] in ' \t':
            j -= 1
        if j >= 0 and out[j] not in '\r\n':
            return ('clause keyword %s at offset %d does not start its line: '
                    '%r' % (norm, pos, out[max(0, pos - 25):pos + 12]))
    # no line ends in a blank, outside multi-line literal/comment tokens
    for tt, v, pos in lex_with_offsets(out):
        if is_ws(tt) and v in (' ', '\t'):
            nxt = out[pos + 1:pos + 2]
            if nxt in ('\n', '\r') or pos + 1 == len(out):
                return 'line ends in a blank at offset %d: %r' % (
                    pos, out[max(0, pos - 20):pos + 3])
    return None


def check(ctx, text, opts, mode, meta):
    rec = ctx.rec
    rec.case()
    case = {'text': text, 'options': opts, 'mode': mode}
    try:
        out = sqlparse.format(text, **dict(opts))
    except SQLParseError as exc:
        # a grammar script of modest depth with valid options: format() has
        # no reason to refuse it, and the property is about its output
        rec.count('sqlparseerror')
        rec.violation('format-refused', case, 'format() raised SQLParseError '
                      '(%s) for a grammar script and valid options %r'
                      % (exc, opts), key=('refused', str(exc)[:30]))
        return
    except Exception:
        rec.count('exception_(C07)')
        return
    err = None
    if mode == 'strip_whitespace':
        rec.monitor('strip_whitespace_nf')
        err = nf_strip_whitespace(out)
    elif mode == 'operators':
        rec.monitor('operators_nf')
        err = nf_operators(out)
    else:
        rec.monitor('reindent_nf')
        err = nf_reindent(text, out)
    if err:
        rec.violation('nf-' + mode, dict(case, output=out), err,
                      key=mode + err[:16], finding=attribute(ctx, text, opts,
                                                             mode, 'nf'))
    elif mode in ('strip_whitespace', 'operators'):
        rec.monitor('fixed_point')
        try:
            again = sqlparse.format(out, **dict(opts))
        except Exception:
            again = None
        if again != out:
            i = fmtutil.first_diff(out, again or '') or 0
            rec.violation('fixed-point-' + mode, dict(case, output=out),
                          'second pass changes the output at offset %d: %r '
                          '-> %r' % (i, out[max(0, i - 20):i + 20],
                                     (again or '')[max(0, i - 20):i + 20]),
                          key='fp' + mode,
                          finding=attribute(ctx, text, opts, mode, 'fp'))
    if meta and len(oracles.sig(text)) >= 8:
        rec.nontrivial((options.opts_key(opts), meta))
    rec.hist('mode', mode)
    rec.hist('option_sets', ','.join(sorted(opts)))
    if rec.evaluations % 499 == 1:
        rec.sample({'text': text[:240], 'options': opts,
                    'output': out[:240]})


def has_comment(text):
    return any(is_comment(tt) for tt, v in sqlparse.lexer.tokenize(text))


def strip_all_comments(text):
    out = []
    for tt, v in sqlparse.lexer.tokenize(text):
        if is_comment(tt):
            v = '\n' if v.endswith(('\n', '\r')) else ' '
        out.append(v)
    return ''.join(out)


def comment_before_close_paren(text):
    toks = [(tt, v) for tt, v in sqlparse.lexer.tokenize(text)
            if not is_ws(tt)]
    for i in range(1, len(toks)):
        if toks[i] == (T.Punctuation, ')') and is_comment(toks[i - 1][0]):
            return True
    return False


def _ok(text, opts, mode, which):
    try:
        out = sqlparse.format(text, **dict(opts))
        if which == 'nf':
            if mode == 'strip_whitespace':
                return nf_strip_whitespace(out) is None
            if mode == 'operators':
                return nf_operators(out) is None
            return nf_reindent(text, out) is None
        return sqlparse.format(out, **dict(opts)) == out
    except Exception:
        return False


def attribute(ctx, text, opts, mode, which):
    if fmtutil.comment_has_quote(text):
        if _ok(fmtutil.neutralise_comment_quotes(text), opts, mode, which):
            return ctx.findings.attr('D8')
    if has_comment(text):
        # D13: a comment group owns the line break(s) after it and the
        # whitespace filters work group by group. Neutralise: the same
        # script with every comment replaced by a blank / line break.
        if _ok(strip_all_comments(text), opts, mode, which):
            return ctx.findings.attr('D13')
    return None


def reindent_options(rng):
    o = {'reindent': True}
    for name in ('indent_tabs', 'indent_after_first', 'indent_columns',
                 'comma_first', 'compact'):
        if rng.random() < 0.3:
            o[name] = True
    if rng.random() < 0.4:
        o['indent_width'] = rng.choice([1, 2, 3, 4, 8])
    if rng.random() < 0.4:
        o['wrap_after'] = rng.choice([0, 1, 5, 20, 80])
    if o.get('indent_columns') and rng.random() < 0.4:
        # indent_columns alone enforces reindent (documented in the
        # option validation)
        del o['reindent']
    return o


def shard(ctx):
    rng = ctx.rng
    while ctx.running():
        x = rng.random()
        trigger = 'D8' if rng.random() < 0.05 else None
        sc = fmtutil.script_for_format(rng, trigger=trigger)
        if x < 0.35:
            mode, opts = 'strip_whitespace', {'strip_whitespace': True}
        elif x < 0.6:
            mode, opts = 'operators', {'use_space_around_operators': True}
        else:
            mode, opts = 'reindent', reindent_options(rng)
        meta = (tuple(s.kind for s in sc.stmts),
                tuple(sorted(sc.features())))
        check(ctx, sc.text, opts, mode, meta)


def replay(ctx, kind, case):
    check(ctx, case['text'], case.get('options', {}), case['mode'], None)


def witness(w):
    text, opts, mode = w['input'], w['options'], w['mode']
    out = sqlparse.format(text, **opts)
    if w.get('which') == 'fp':
        again = sqlparse.format(out, **opts)
        return again != out, '%r -> %r' % (out, again)
    err = {'strip_whitespace': nf_strip_whitespace,
           'operators': nf_operators}.get(mode, lambda o: nf_reindent(
               text, o))(out)
    return err is not None, err or ''
