"""C12 — identifier accessors return the written name, qualifier and
alias."""
import sqlparse
from sqlparse import sql

from vlib import grammar, treeloc

ID = 'C12'
LEVEL = 'exploration'
DECIDING = ['identifier_accessors']
RULE = ('object references of the verification grammar: plain, "quoted" '
        'and `backtick` names (bodies with blanks, keywords, ;, --, /*, .) x '
        'optional qualifier x alias {none, AS, bare} x every whitespace '
        'spelling x contexts {select list single/first/later, FROM single/'
        'list, every JOIN variant, UPDATE, INSERT with/without column list, '
        'DELETE, subquery select list, subquery FROM, CTE bodies}. Oracle '
        '(derivation): the leaf holding the written name is found by '
        'character offset; the outermost Identifier ancestor inside the '
        'reference\'s span (else any Identifier/Function ancestor) must '
        'return exactly (real name, parent name, alias, alias-or-name, '
        'has_alias) with quotes removed. distinct_nontrivial = distinct '
        '(context, quoting of name/qualifier/alias, alias form) tuples')
ASSUMPTIONS = [
    'names never are dictionary words, contain no $ or #, no whitespace '
    'around the qualifier dot (documented lexer limitation), INSERT targets '
    'carry no alias',
    'no comments inside these scripts (the property speaks about whitespace)',
]


def plan(tier):
    return {'shards': 16, 'budget_s': 30 if tier == 'quick' else 450}


def quoting(tok):
    return {'name': 'plain', 'qname': 'dq', 'bname': 'bt'}.get(tok.kind, '?')


def observe(node):
    return (node.get_real_name(), node.get_parent_name(), node.get_alias(),
            node.get_name(), node.has_alias())


def check_script(ctx, sc):
    rec = ctx.rec
    rec.case()
    text = sc.text
    try:
        stmts = sqlparse.parse(text)
    except Exception:
        rec.count('exception_(C07)')
        return
    if len(stmts) != len(sc.stmts):
        rec.count('statement_count_mismatch_(C05)')
        return
    loc = treeloc.Located(stmts)
    for si, st in enumerate(sc.stmts):
        spans = sc.tok_spans[si]
        for ref in st.refs:
            rec.monitor('identifier_accessors')
            a = spans[ref['first']][0]
            b = spans[ref['last']][1]
            na, nb = spans[ref['name_tok']]
            leaf = loc.leaf_at.get(na)
            want = (ref['name'], ref['qual'], ref['alias'],
                    ref['alias'] or ref['name'], ref['alias'] is not None)
            case = {'text': text, 'ref_text': text[a:b], 'span': [a, b],
                    'ctx': ref['ctx'], 'want': list(want)}
            if leaf is None or loc.span[id(leaf)] != (na, nb):
                rec.violation('name-leaf', case, 'no leaf at the name '
                              'position %d (%r)' % (na, text[na:nb]),
                              key=('leaf', ref['ctx']))
                continue
            anc = loc.ancestors(leaf)
            inside = [n for n in anc if isinstance(n, sql.Identifier)
                      and a <= loc.span[id(n)][0]
                      and loc.span[id(n)][1] <= b]
            cands = [inside[-1]] if inside else [
                n for n in anc if isinstance(n, (sql.Identifier,
                                                 sql.Function))]
            got = None
            ok = False
            for n in cands:
                try:
                    got = observe(n)
                except Exception as exc:
                    got = 'EXC %r' % (exc,)
                if got == want:
                    ok = True
                    break
            if not ok:
                rec.violation('accessors', case,
                              'reference %r in context %s: expected (real, '
                              'parent, alias, name, has_alias) = %r, got %r '
                              'from %s' % (text[a:b], ref['ctx'], want, got,
                                           type(cands[-1]).__name__
                                           if cands else 'no Identifier'),
                              key=(ref['ctx'], ref['alias'] is not None,
                                   ref['has_as'], ref['qual'] is not None))
            toks = st.toks
            rec.nontrivial((ref['ctx'], quoting(toks[ref['name_tok']]),
                            quoting(toks[ref['first']]) if ref['qual']
                            else '-',
                            'as' if ref['has_as'] else
                            ('bare' if ref['alias'] else 'none'),
                            quoting(toks[ref['last']]) if ref['alias']
                            else '-'))
            rec.hist('context', ref['ctx'])
    if rec.evaluations % 499 == 1:
        rec.sample({'text': text[:240]})


def shard(ctx):
    rng = ctx.rng
    cfg = grammar.Config()
    while ctx.running():
        layout = grammar.Layout(rng, ws=rng.choice(['single', 'mixed']),
                                comments=0,
                                kwcase=rng.choice(['upper', 'lower',
                                                   'mixed']),
                                inner=rng.choice(['single', 'mixed']))
        sc = grammar.make_script(rng, cfg, layout=layout,
                                 nstmts=rng.choice([1, 1, 2]),
                                 sep_comments=False)
        check_script(ctx, sc)


def replay(ctx, kind, case):
    # re-observe every Identifier overlapping the recorded span
    text = case['text']
    a, b = case['span']
    stmts = sqlparse.parse(text)
    loc = treeloc.Located(stmts)
    want = tuple(case['want'])
    for n in loc.nodes:
        if isinstance(n, (sql.Identifier, sql.Function)):
            s0, s1 = loc.span[id(n)]
            if s0 < b and a < s1:
                try:
                    if observe(n) == want:
                        return
                except Exception:
                    pass
    ctx.rec.violation(kind, case, 'replay: no Identifier over %r returns %r'
                      % (case['ref_text'], want))
