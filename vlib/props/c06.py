"""C06 — layout formatting never changes the significant tokens."""
import sqlparse
from sqlparse.exceptions import SQLParseError

from vlib import fmtutil, options, oracles

ID = 'C06'
LEVEL = 'exploration'
DECIDING = ['sig_conservation', 'statement_count']
RULE = ('grammar scripts (comments in any inter-token position, all '
        'whitespace spellings, literals with embedded line breaks, hints) x '
        'layout option sets: a deterministic base covering every pair of the '
        '9 boolean layout flags plus random sets with indent_width in '
        '{1,2,3,4,8} and wrap_after in {0,1,5,20,80}, and the empty set; '
        'oracle: the real lexer\'s non-whitespace token sequence of '
        'format() output equals that of the input (values exact; comments '
        'modulo per-line trailing blanks / line-end spelling) and input and '
        'output split into the same number of statements (pieces holding '
        'only comments are not counted). distinct_nontrivial = distinct '
        '(option set, statement kinds, feature set) with >= 8 significant '
        'tokens')
ASSUMPTIONS = [
    'significant tokens are identified by re-lexing input and output with '
    'the real lexer (C01/C14 guard the lexer itself)',
    'main workload is free of the known-finding triggers D7 (line break '
    'inside a backtick/dollar body) and D8 (quote character inside a '
    'comment); both are exercised as labelled classes',
]


def plan(tier):
    return {'shards': 16, 'budget_s': 35 if tier == 'quick' else 480}


def check(ctx, text, opts, meta, trigger=None):
    rec = ctx.rec
    rec.case()
    case = {'text': text, 'options': opts}
    try:
        out = sqlparse.format(text, **dict(opts))
    except SQLParseError as exc:
        # a grammar script of modest depth with valid options: format() has
        # no reason to refuse it, and the property is about its output
        rec.count('sqlparseerror')
        rec.violation('format-refused', case, 'format() raised SQLParseError '
                      '(%s) for a grammar script and valid options %r'
                      % (exc, opts), key=('refused', str(exc)[:30]))
        return
    except Exception:
        rec.count('exception_(C07)')
        return
    rec.monitor('sig_conservation')
    a = oracles.sig(text)
    b = oracles.sig(out)
    err = fmtutil.describe_diff(a, b, 'significant token')
    if err:
        fid = attribute(ctx, text, opts)
        rec.violation('sig', dict(case, output=out), err,
                      key=err.split(':')[0][:20] + str(sorted(opts)[:3]),
                      finding=fid)
    else:
        rec.monitor('statement_count')
        n1, n2 = fmtutil.count_statements(text), \
            fmtutil.count_statements(out)
        if n1 != n2:
            rec.violation('count', dict(case, output=out),
                          'input splits into %d statements, output into %d'
                          % (n1, n2), key='c',
                          finding=attribute(ctx, text, opts))
    if len(a) >= 8 and meta:
        rec.nontrivial((options.opts_key(opts), meta))
    rec.hist('option_sets', ','.join(sorted(opts)) or '<none>')
    if trigger:
        rec.count('trigger_class_' + trigger)
    if rec.evaluations % 499 == 1:
        rec.sample({'text': text[:240], 'options': opts,
                    'output': out[:240]})


def empty_hash_comment(text):
    from sqlparse import tokens as T
    for tt, v in sqlparse.lexer.tokenize(text):
        if tt in T.Comment.Single and v.startswith('#') \
                and not v[1:].strip():
            return True
    return False


def attribute(ctx, text, opts):
    """Known findings D7/D8: serializer's quoted-region detection; D25: an
    empty '# ' comment."""
    if empty_hash_comment(text):
        import re
        neutral = re.sub(r'# (?=[ \t]*(\r\n|\r|\n|$))', '# x', text)
        if neutral != text and not empty_hash_comment(neutral) \
                and _passes(neutral, opts):
            return ctx.findings.attr('D25')
    if fmtutil.comment_has_quote(text):
        neutral = fmtutil.neutralise_comment_quotes(text)
        if _passes(neutral, opts):
            return ctx.findings.attr('D8')
    if fmtutil.unquoted_region_has_newline_or_trailing_blank(text):
        neutral = text
        import re
        from sqlparse import tokens as T
        parts = []
        for tt, v in sqlparse.lexer.tokenize(text):
            if (tt is T.Name and v[:1] in '`´') or tt is T.Literal:
                v = re.sub(r'[ \t]*[\r\n]+', '_', v)
            parts.append(v)
        if _passes(''.join(parts), opts):
            return ctx.findings.attr('D7')
    return None


def _passes(text, opts):
    try:
        out = sqlparse.format(text, **dict(opts))
    except Exception:
        return False
    return (oracles.sig(text) == oracles.sig(out)
            and fmtutil.count_statements(text)
            == fmtutil.count_statements(out))


D25_ITEMS = ['select 1 # \n from t', 'select a, # \n b from t',
             'select 1; # \nselect 2']
D7_ITEMS = ['$$ a  \r\n b $$', '`a  \r\nb`', '$x$line1 \n line2$x$',
            '`n\nm`', '$$\r\n$$']


def shard(ctx):
    rng = ctx.rng
    base = options.pairwise_layout_sets()
    i = ctx.shard
    while ctx.running():
        i += 1
        if i % 700 == 350:
            from vlib import hostile
            check(ctx, hostile.bulk_statement(rng),
                  rng.choice([{}, {'strip_whitespace': True},
                              {'use_space_around_operators': True},
                              {'reindent': True},
                              {'reindent_aligned': True}]),
                  ('bulk',))
            continue
        if i % 700 == 50:
            from vlib import hostile
            check(ctx, hostile.many_statements(rng),
                  rng.choice([{}, {'strip_whitespace': True},
                              {'reindent': True},
                              {'use_space_around_operators': True}]),
                  ('many',))
            continue
        x = rng.random()
        trigger = None
        if x < 0.08:
            trigger = 'D8'
        elif x < 0.12:
            trigger = 'D7'
        sc = fmtutil.script_for_format(rng, trigger=trigger)
        text = sc.text
        if trigger == 'D7':
            text = text.rstrip() + '\nselect ' + rng.choice(D7_ITEMS) \
                + ' from t'
        elif trigger is None and rng.random() < 0.03:
            trigger = 'D25'
            text = text.rstrip() + '\n' + rng.choice(D25_ITEMS)
        if i % 3 == 0:
            opts = dict(base[(i // 3) % len(base)])
            if rng.random() < 0.3:
                opts['indent_width'] = rng.choice([1, 2, 3, 4, 8])
            if rng.random() < 0.3:
                opts['wrap_after'] = rng.choice([0, 1, 5, 20, 80])
        else:
            opts = options.layout_options(rng)
        meta = (tuple(s.kind for s in sc.stmts),
                tuple(sorted(sc.features())))
        check(ctx, text, opts, meta, trigger)


def replay(ctx, kind, case):
    check(ctx, case['text'], case.get('options', {}), None)


def witness(w):
    text, opts = w['input'], w.get('options', {})
    out = sqlparse.format(text, **opts)
    err = fmtutil.describe_diff(oracles.sig(text), oracles.sig(out))
    return (err is not None), err or ''
