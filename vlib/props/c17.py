"""C17 — procedural bodies (CREATE ... BEGIN ... END;) stay one
statement."""
import random

import sqlparse

from vlib import procgrammar

ID = 'C17'
LEVEL = 'exploration'
DECIDING = ['procedural_split']
RULE = ('scripts from the procedural grammar: 0-3 plain statements, one '
        'CREATE [OR REPLACE] FUNCTION|PROCEDURE|TRIGGER whose BEGIN...END '
        'body nests (depth <= 3) plain statements (with ;, end, begin inside '
        'literals and comments), nested BEGIN...END, IF/ELSIF/ELSE/END IF, '
        'WHILE...DO...END WHILE, LOOP...END LOOP, CASE expressions, inner '
        'DECLARE, assignments, RETURN, calls named like block keywords '
        '(IF(...), LEFT(...)), qualified names spelled like them (NEW.end, '
        'r.begin), trigger headers BEFORE/AFTER/INSTEAD OF ... FOR EACH ROW '
        'and ON t FOR|AFTER event[, event] AS, then 0-3 plain statements; every '
        'keyword casing and whitespace spelling. Oracle (derivation): '
        'split() returns exactly the written top-level statements, the '
        'CREATE as one piece ending at the ; after its final END. 70% of the '
        'scripts come from the clean sub-grammar (any deviation is a '
        'violation); 30% add the labelled constructs of known finding D17. '
        'distinct_nontrivial = distinct (construct multiset, depth, '
        'statements before/after) shapes')
ASSUMPTIONS = [
    'expected pieces are the generator\'s own statement texts',
    'a deviation on a script with a D17 trigger construct is attributed to '
    'D17 only when removing nothing else explains it: the clean sub-grammar '
    'run alongside must stay silent',
]


def plan(tier):
    return {'shards': 16, 'budget_s': 30 if tier == 'quick' else 450}


def shape_of(text):
    up = ' '.join(text.upper().split())
    feats = []
    for w in ('END IF', 'END WHILE', 'END LOOP', 'ELSIF', 'BEGIN', 'CASE',
              'DECLARE', 'TRIGGER', 'PROCEDURE', 'FUNCTION', 'OR REPLACE'):
        feats.append((w, min(up.count(w), 3)))
    return tuple(feats)


def check(ctx, text, want, trig):
    rec = ctx.rec
    rec.case()
    rec.monitor('procedural_split')
    case = {'text': text, 'expected': want, 'triggers': sorted(trig)}
    try:
        got = sqlparse.split(text)
    except Exception:
        rec.count('exception_(C07)')
        return
    if got != want:
        fid = None
        if trig:
            for t in sorted(trig):
                fid = ctx.findings.attr('D17-' + t)
                if fid:
                    break
        i = 0
        while i < min(len(got), len(want)) and got[i] == want[i]:
            i += 1
        rec.violation('procedural-split', case,
                      'expected %d pieces, got %d; first difference at piece '
                      '%d: expected %r, got %r' % (
                          len(want), len(got), i,
                          (want[i] if i < len(want) else None or '')[:80],
                          (got[i] if i < len(got) else None or '')[:80]),
                      key=(len(got) < len(want), tuple(sorted(trig))),
                      finding=fid)
    rec.nontrivial((shape_of(text), len(want)))
    rec.hist('class', 'clean' if not trig else 'trigger:' + ','.join(
        sorted(trig)))
    if rec.evaluations % 499 == 1:
        rec.sample({'text': text[:400], 'pieces': len(want)})


def shard(ctx):
    rng = ctx.rng
    gen = procgrammar.ProcGen(rng)
    while ctx.running():
        clean = rng.random() < 0.7
        text, want, trig = gen.script(clean=clean)
        check(ctx, text, want, trig)


def replay(ctx, kind, case):
    check(ctx, case['text'], case['expected'], set(case.get('triggers', [])))


def witness(w):
    got = sqlparse.split(w['input'])
    if len(got) != w['expected_pieces']:
        return True, 'split gives %d pieces, expected %d' % (
            len(got), w['expected_pieces'])
    return False, ''
