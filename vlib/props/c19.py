"""C19 — all input forms and front ends give the same result."""
import io
import os
import subprocess
import sys
import tempfile

import sqlparse
from sqlparse.exceptions import SQLParseError

from vlib import common, hostile, options, oracles
from vlib.props import grammar_texts

ID = 'C19'
LEVEL = 'exploration'
DECIDING = ['input_forms', 'parsestream_eq_parse', 'cli_eq_format']
TECHNIQUE = ('runtime monitoring: cross-front-end equality (the same input '
             'through every entry form, observations compared)')
RULE = ('texts: grammar scripts and char soup sprinkled with non-ASCII '
        '(latin-1, cp1252-only, CJK, astral), backslashes, CR, CRLF, NUL, '
        'quoted text containing CR. Forms: str; bytes + encoding for every '
        'codec able to encode the text out of utf-8, utf-16, utf-32-le, '
        'latin-1, cp1252, gbk; UTF-8 bytes without encoding; non-UTF-8 '
        'bytes without encoding (must equal the Latin-1 reading); '
        'io.StringIO; x parse (tree dump), parsestream, split, format with '
        'random valid options. CLI: sqlparse.cli.main in-process (file and '
        '"-" input, stdout and -o output, every flag the parser accepts, '
        'now and then 5-40 KB inputs full of multi-byte characters, '
        'every encoding) and `python -m sqlparse` subprocesses for a sample; '
        'expected = format(decoded text, mapped options). Also: texts whose '
        'UTF-8 form has a multi-byte character across byte 512 ... 65536, '
        'BOM-first texts, and a for-loop over parsestream() that calls '
        'format()/split() for every statement it receives. '
        'distinct_nontrivial = distinct (form/encoding/channel, option set) '
        'combinations observed on non-ASCII or CR-carrying texts')
ASSUMPTIONS = [
    'the decoded text is bytes.decode(encoding) without newline translation',
    'lone surrogates are excluded (no codec can carry them)',
    'in-process CLI runs replace sys.stdin / sys.stdout; a subprocess sample '
    'checks the real channels with PYTHONIOENCODING=utf-8',
]

CODECS = ['utf-8', 'utf-16', 'utf-32-le', 'latin-1', 'cp1252', 'gbk']
SPRINKLE = ['é', 'Ü', 'ß', '€', '中', '😀', '\\', '\\n', '\\x41', '\r',
            '\r\n', '\x00', '"a\rb"', "'x\r\ny'", "'\\'", 'À', '\xa0', '\x85',
            '\\N{DASH}', '\\u00e9', "'a\\'", '´', '’']


def plan(tier):
    return {'shards': 16, 'budget_s': 35 if tier == 'quick' else 480}


def make_text(rng, src):
    x = rng.random()
    if x < 0.6:
        text = src.text()
    elif x < 0.8:
        text = hostile.token_soup(rng)
    else:
        text = hostile.char_soup(rng, maxlen=80)
        if len(text) > 400:
            text = text[:400]
    for _ in range(rng.choice([0, 1, 2, 4])):
        i = rng.randrange(len(text) + 1)
        text = text[:i] + rng.choice(SPRINKLE) + text[i:]
    if rng.random() < 0.06:
        # a byte order mark as the very first character (utf-8-sig style
        # readers drop it, the library keeps it)
        text = '\ufeff' + text
    # no lone surrogates
    return ''.join(c for c in text if not 0xd800 <= ord(c) <= 0xdfff)


def straddle_text(rng):
    """A text whose UTF-8 form has a multi-byte character lying across a
    typical buffer / probe size."""
    T_ = rng.choice([512, 1024, 2048, 4096, 8192, 16384, 32768, 65536])
    ch = rng.choice(['\u00e9', '\u20ac', '\U0001f600', '\u4e2d'])
    n = len(ch.encode('utf-8'))
    j = rng.randint(1, n - 1)            # bytes of ch in front of T_
    head = rng.choice(["select '", "insert into t values ('", "-- ",
                       "/* ", 'select "'])
    tail = {"select '": "' from t;", "insert into t values ('": "');",
            "-- ": "\nselect 1;", "/* ": " */ select 1;",
            'select "': '" from t;'}[head]
    fill = T_ - j - len(head)
    body = ('abcdefg ' * (fill // 8 + 1))[:fill]
    return head + body + ch * rng.choice([1, 2, 5]) + tail + \
        rng.choice(['', ' select 2;', '\nselect \'' + ch + '\';'])


def check_straddle(ctx):
    rec, rng = ctx.rec, ctx.rng
    rec.case()
    text = straddle_text(rng)
    u8 = text.encode('utf-8')
    for api in ('split', 'parse') if len(text) < 20000 else ('split',):
        ref = observe(api, text, {})
        for name, data, enc in (('utf8-bytes-no-encoding', u8, None),
                                ('bytes+utf-8', u8, 'utf-8'),
                                ('stringio', None, None)):
            rec.monitor('input_forms')
            if data is None:
                data = io.StringIO(text)
            got = observe(api, data, {}, enc)
            if got != ref:
                rec.violation('form-' + name + '-straddle',
                              {'text': text[:200] + '...' + text[-60:],
                               'length': len(text), 'api': api, 'form': name},
                              '%s(%s) of a %d-byte text with a multi-byte '
                              'character across a buffer size differs from '
                              '%s(str): %s vs %s' % (
                                  api, name, len(u8), api, str(got)[:80],
                                  str(ref)[:80]), key=('straddle', name, api))
    rec.count('straddle_cases')
    rec.nontrivial(('straddle', len(u8) // 512))


def observe(api, data, opts, encoding=None):
    try:
        if api == 'parse':
            return [oracles.dump_tree(s) for s in
                    sqlparse.parse(data, encoding)]
        if api == 'parsestream':
            return [oracles.dump_tree(s) for s in
                    sqlparse.parsestream(data, encoding)]
        if api == 'split':
            return sqlparse.split(data, encoding)
        return sqlparse.format(data, encoding=encoding, **dict(opts))
    except SQLParseError as exc:
        return 'SQLParseError'
    except Exception as exc:
        return 'EXC %s: %s' % (type(exc).__name__, str(exc)[:60])


def check_forms(ctx, text, opts):
    rec, rng = ctx.rec, ctx.rng
    rec.case()
    interesting = (not text.isascii()) or '\r' in text or '\\' in text
    for api in ('parse', 'split', 'format'):
        ref = observe(api, text, opts)
        forms = []
        for codec in CODECS:
            try:
                data = text.encode(codec)
            except UnicodeEncodeError:
                continue
            if data.decode(codec) != text:
                continue
            forms.append(('bytes+' + codec, data, codec))
        u8 = text.encode('utf-8')
        forms.append(('utf8-bytes-no-encoding', u8, None))
        forms.append(('stringio', 'STRINGIO', None))
        for name, data, enc in forms:
            rec.monitor('input_forms')
            if data == 'STRINGIO':
                data = io.StringIO(text)
            got = observe(api, data, opts, enc)
            if got != ref:
                rec.violation('form-' + name, {'text': text, 'api': api,
                                               'form': name, 'options': opts},
                              '%s(%s) differs from %s(str): %s vs %s' % (
                                  api, name, api, str(got)[:100],
                                  str(ref)[:100]), key=(name, api))
            if interesting:
                rec.nontrivial((api, name, options.opts_key(opts)))
        # non-UTF-8 bytes without encoding = Latin-1 reading
        try:
            raw = text.encode('latin-1')
        except UnicodeEncodeError:
            raw = None
        if raw is not None:
            try:
                raw.decode('utf-8')
                is_utf8 = True
            except UnicodeDecodeError:
                is_utf8 = False
            if not is_utf8:
                rec.monitor('input_forms')
                got = observe(api, raw, opts)
                if got != ref:
                    rec.violation('form-latin1-fallback',
                                  {'text': text, 'api': api,
                                   'options': opts},
                                  '%s(non-UTF-8 bytes) differs from the '
                                  'Latin-1 reading: %s vs %s' % (
                                      api, str(got)[:100], str(ref)[:100]),
                                  key=('l1', api))
                rec.count('latin1_fallback_cases')
                rec.nontrivial((api, 'latin1-fallback'))
    rec.monitor('parsestream_eq_parse')
    a = observe('parse', text, {})
    b = observe('parsestream', io.StringIO(text), {})
    c = observe('parsestream', text, {})
    if a != b or a != c:
        rec.violation('parsestream', {'text': text}, 'parsestream yields '
                      'other statements than parse', key='ps')
    elif isinstance(a, list) and len(a) > 1:
        # the usual consumer: a loop over parsestream() that calls the
        # library again for every statement it receives
        d = []
        try:
            for stmt in sqlparse.parsestream(io.StringIO(text)):
                d.append(oracles.dump_tree(stmt))
                sqlparse.format(str(stmt), keyword_case='upper')
                sqlparse.split('select 1; select 2')
        except Exception as exc:
            d = 'EXC %s' % type(exc).__name__
        rec.count('parsestream_consumed_lazily')
        if d != a:
            rec.violation('parsestream-lazy', {'text': text}, 'a loop over '
                          'parsestream() that calls format()/split() for '
                          'each statement receives other statements than '
                          'parse() returns', key='psl')
    if rec.evaluations % 499 == 1:
        rec.sample({'text': text[:200], 'options': opts})


def check_same_size(ctx, text, opts):
    """Several different texts of the same encoded length are passed as
    bytes one directly after the other, each buffer released before the
    next one is made (a loop over equally sized files): every result must
    be the one of that text's str form."""
    rec = ctx.rec
    idx = [i for i, c in enumerate(text) if c.isascii() and c.isalnum()]
    if not idx:
        return
    variants = [text]
    for k in range(3):
        i = idx[(k * 7919) % len(idx)]
        c = text[i]
        r = {'9': '1', 'z': 'y', 'Z': 'Y'}.get(c, chr(ord(c) + 1))
        variants.append(text[:i] + r + text[i + 1:])
    for api in ('split', 'format', 'parse'):
        refs = [observe(api, v, opts) for v in variants]
        for enc in ('utf-8', None):
            gots = []
            for v in variants:
                data = v.encode('utf-8')
                gots.append(observe(api, data, opts, enc))
                del data
            rec.monitor('input_forms')
            for v, g, r in zip(variants, gots, refs):
                if g != r:
                    rec.violation('form-bytes-sequence',
                                  {'text': v, 'api': api, 'options': opts,
                                   'variants': variants},
                                  '%s(bytes) in a sequence of equally long '
                                  'inputs differs from %s(str): %s vs %s' % (
                                      api, api, str(g)[:100], str(r)[:100]),
                                  key=('seq', api))
                    break
    rec.count('same_size_sequences')
    rec.nontrivial(('same-size', len(text) % 64))


# ---- CLI --------------------------------------------------------------------
def cli_args(rng):
    """(argv flags, expected format() options)."""
    argv, o = [], {}
    if rng.random() < 0.3:
        v = rng.choice(options.CASES)
        argv += [rng.choice(['-k', '--keywords']), v]
        o['keyword_case'] = v
    if rng.random() < 0.3:
        v = rng.choice(options.CASES)
        argv += [rng.choice(['-i', '--identifiers']), v]
        o['identifier_case'] = v
    if rng.random() < 0.15:
        v = rng.choice(['python', 'php'])
        argv += [rng.choice(['-l', '--language']), v]
        o['output_format'] = v
    if rng.random() < 0.25:
        argv += ['--strip-comments']
        o['strip_comments'] = True
    if rng.random() < 0.35:
        argv += [rng.choice(['-r', '--reindent'])]
        o['reindent'] = True
    if rng.random() < 0.2:
        v = rng.choice([1, 2, 3, 4, 8])
        argv += ['--indent_width', str(v)]
        o['indent_width'] = v
    if rng.random() < 0.15:
        argv += ['--indent_after_first']
        o['indent_after_first'] = True
    if rng.random() < 0.15:
        argv += ['--indent_columns']
        o['indent_columns'] = True
    if rng.random() < 0.2:
        argv += [rng.choice(['-a', '--reindent_aligned'])]
        o['reindent_aligned'] = True
    if rng.random() < 0.2:
        argv += [rng.choice(['-s', '--use_space_around_operators'])]
        o['use_space_around_operators'] = True
    if rng.random() < 0.2:
        v = rng.choice([0, 1, 5, 20, 80])
        argv += ['--wrap_after', str(v)]
        o['wrap_after'] = v
    if rng.random() < 0.15:
        argv += ['--comma_first', '1']
        o['comma_first'] = True
    if rng.random() < 0.15:
        argv += ['--compact', 'yes']
        o['compact'] = True
    if rng.random() < 0.12:
        # option bundles whose members only act together: the command line
        # validates the options before format() validates them again
        if 'reindent' not in o:
            argv += ['-r']
            o['reindent'] = True
        if 'comma_first' not in o:
            argv += ['--comma_first', 'True']
            o['comma_first'] = True
        if 'wrap_after' in o:
            i = argv.index('--wrap_after')
            del argv[i:i + 2]
        v = rng.randint(2, 60)
        argv += ['--wrap_after', str(v)]
        o['wrap_after'] = v
    return argv, o


class _Stdin:
    def __init__(self, data):
        self.buffer = io.BytesIO(data)


def run_cli_inprocess(argv, stdin_bytes):
    old_in, old_out, old_err = sys.stdin, sys.stdout, sys.stderr
    out, err = io.StringIO(), io.StringIO()
    sys.stdout, sys.stderr = out, err
    if stdin_bytes is not None:
        sys.stdin = _Stdin(stdin_bytes)
    try:
        try:
            rc = sqlparse.cli.main(argv)
        except SystemExit as exc:
            rc = 'exit %r' % (exc.code,)
        except Exception as exc:
            rc = 'EXC %s: %s' % (type(exc).__name__, str(exc)[:80])
    finally:
        sys.stdin, sys.stdout, sys.stderr = old_in, old_out, old_err
    return rc, out.getvalue(), err.getvalue()


def big_text(rng, src):
    """8-40 KB of statements rich in multi-byte characters (block-wise
    readers / decoders meet characters straddling their buffer ends)."""
    parts = []
    size = 0
    target = rng.choice([5000, 9000, 17000, 40000])
    pad = rng.choice(['', 'x', 'xy', 'xyz'])      # shift the byte alignment
    parts.append('-- ' + pad + '\n')
    while size < target:
        t = "insert into t values ('%s', '%s');\n" % (
            rng.choice(['é', '中文', '😀', 'Üß', 'naïve', '€']) * rng.randint(
                1, 9), rng.choice(['x', 'ä', '日本']))
        parts.append(t)
        size += len(t.encode('utf-8'))
    return ''.join(parts)


def big_stream_text(rng):
    """70-150 thousand characters with multi-line opaque regions whose
    lines end in ';' (a reader that cuts a stream into pieces at ';' line
    ends, or at a buffer size, shows here)."""
    parts = []
    size = 0
    target = rng.choice([70000, 100000, 150000])
    k = 0
    while size < target:
        k += 1
        x = rng.random()
        if x < 0.25:
            t = "/* note %d;\n   still the comment;\n   end; */\n" % k
        elif x < 0.45:
            t = "insert into t values ('line one;\nline two;\n', %d);\n" % k
        elif x < 0.6:
            t = "select $b$ first;\n second;\n$b$ as body%d;\n" % k
        else:
            t = "select c%d, 'x' from t%d where a = %d; -- c;\n" % (k, k, k)
        t = t * rng.choice([1, 1, 3])
        parts.append(t)
        size += len(t)
    return ''.join(parts)


def check_big_stream(ctx):
    rec, rng = ctx.rec, ctx.rng
    rec.case()
    text = big_stream_text(rng)
    for api in ('split', 'parse'):
        rec.monitor('input_forms')
        ref = observe(api, text, {})
        got = observe(api, io.StringIO(text), {})
        if got != ref:
            n1 = len(ref) if isinstance(ref, list) else ref
            n2 = len(got) if isinstance(got, list) else got
            rec.violation('form-stringio-big', {'text': text[:2000],
                                                'length': len(text),
                                                'api': api},
                          '%s of a %d-character text stream gives %s '
                          'statements, of the same str %s' % (
                              api, len(text), n2, n1), key=('bigstream', api))
    rec.count('big_stream_cases')
    rec.nontrivial(('bigstream', len(text) // 10000))


def check_cli(ctx, text, tmpdir, subprocess_too):
    rec, rng = ctx.rec, ctx.rng
    rec.case()
    codecs = []
    for codec in ['utf-8', 'latin-1', 'cp1252', 'gbk', 'utf-16']:
        try:
            if text.encode(codec).decode(codec) == text:
                codecs.append(codec)
        except UnicodeError:
            pass
    codec = rng.choice(codecs)
    data = text.encode(codec)
    flags, opts = cli_args(rng)
    use_stdin = rng.random() < 0.4
    use_outfile = rng.random() < 0.4
    inpath = os.path.join(tmpdir, 'in.sql')
    outpath = os.path.join(tmpdir, 'out.sql')
    argv = []
    if use_stdin:
        argv.append('-')
    else:
        with open(inpath, 'wb') as f:
            f.write(data)
        argv.append(inpath)
    argv += flags
    if codec != 'utf-8' or rng.random() < 0.3:
        argv += ['--encoding', codec]
    if use_outfile:
        argv += ['-o', outpath]
        if os.path.exists(outpath):
            os.unlink(outpath)
    case = {'text': text, 'argv': argv, 'codec': codec, 'options': opts}
    try:
        want = sqlparse.format(text, **dict(opts))
    except Exception as exc:
        want = None
    rec.monitor('cli_eq_format')
    rc, out, err = run_cli_inprocess(list(argv), data if use_stdin else None)
    if want is None:
        return
    try:
        want.encode(codec if use_outfile else 'utf-8')
    except UnicodeEncodeError:
        # a case filter produced a character the chosen output encoding
        # cannot carry: outside the property's quantifier
        rec.count('cli_output_not_encodable_(skipped)')
        return
    if use_outfile:
        try:
            with open(outpath, 'rb') as f:
                out = f.read().decode(codec)
        except Exception as exc:
            out = 'cannot read outfile: %r' % (exc,)
    if rc != 0 or out != want:
        i = 0
        while i < min(len(out), len(want)) and out[i] == want[i]:
            i += 1
        rec.violation('cli', case, 'sqlformat %s (rc=%r) gives %r, format() '
                      'gives %r (first difference at %d)' % (
                          ' '.join(argv[1:]), rc, out[max(0, i - 15):i + 25],
                          want[max(0, i - 15):i + 25], i),
                      key=('cli', use_stdin, use_outfile, codec,
                           str(rc)[:12]))
    rec.nontrivial(('cli', 'stdin' if use_stdin else 'file',
                    'outfile' if use_outfile else 'stdout', codec,
                    tuple(sorted(opts))))
    rec.hist('cli_channels', '%s->%s/%s' % (
        'stdin' if use_stdin else 'file',
        'outfile' if use_outfile else 'stdout', codec))
    if subprocess_too:
        env = dict(os.environ)
        env['PYTHONIOENCODING'] = 'utf-8'
        p = subprocess.run([sys.executable, '-B', '-m', 'sqlparse'] + argv,
                           input=data if use_stdin else None,
                           capture_output=True, env=env, timeout=120,
                           cwd=common.REPO)
        if use_outfile:
            with open(outpath, 'rb') as f:
                got = f.read().decode(codec)
        else:
            got = p.stdout.decode('utf-8')
        rec.count('cli_subprocess_runs')
        if p.returncode != 0 or got != want:
            rec.violation('cli-subprocess', case, 'python -m sqlparse %s '
                          '(rc=%d) gives %r, format() gives %r; stderr %r'
                          % (' '.join(argv[1:]), p.returncode, got[:60],
                             want[:60], p.stderr[-120:]),
                          key=('clisub', use_stdin, use_outfile, codec))


def shard(ctx):
    rng = ctx.rng
    src = grammar_texts.Source(rng)
    tmpdir = tempfile.mkdtemp(prefix='verif-c19-')
    try:
        k = 0
        while ctx.running():
            k += 1
            text = make_text(rng, src)
            if k % 150 == 75:
                check_big_stream(ctx)
            elif k % 20 == 12:
                check_straddle(ctx)
            elif k % 20 == 7:
                check_same_size(ctx, text, options.any_valid_options(rng))
            elif k % 45 == 0:
                check_cli(ctx, big_text(rng, src), tmpdir,
                          subprocess_too=(k % 90 == 0))
            elif k % 3 == 0:
                check_cli(ctx, text, tmpdir, subprocess_too=(k % 60 == 0))
            else:
                check_forms(ctx, text, options.any_valid_options(rng))
    finally:
        for n in os.listdir(tmpdir):
            os.unlink(os.path.join(tmpdir, n))
        os.rmdir(tmpdir)


def replay(ctx, kind, case):
    if 'argv' in case:
        ctx.rec.note('re-run with the same VERIF_SEED; argv was %r'
                     % (case['argv'],))
    elif 'variants' in case:
        check_same_size(ctx, case['variants'][0], case.get('options', {}))
    else:
        check_forms(ctx, case['text'], case.get('options', {}))


def witness(w):
    if w.get('cli'):
        d = tempfile.mkdtemp(prefix='verif-c19w-')
        path = os.path.join(d, 'in.sql')
        try:
            with open(path, 'wb') as f:
                f.write(w['input'].encode('utf-8'))
            rc, out, err = run_cli_inprocess([path], None)
        finally:
            os.unlink(path)
            os.rmdir(d)
        want = sqlparse.format(w['input'])
        return out != want, 'cli gives %r, format gives %r' % (out, want)
    raw = common.unjson(w['input_bytes'])
    a = observe('parse', raw, {})
    b = observe('parse', raw.decode('latin-1'), {})
    return a != b, 'parse(bytes) = %s, Latin-1 reading = %s' % (
        str(a)[:80], str(b)[:80])
