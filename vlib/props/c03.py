"""C03 — grouping is purely structural; the tree is well formed."""
import random

import sqlparse
from sqlparse import sql

from vlib import hooks, hostile, oracles
from vlib.props import grammar_texts

ID = 'C03'
LEVEL = 'exploration'
DECIDING = ['tree_wellformed', 'navigation']
RULE = ('inputs: token soup, bracket/keyword soup, chain soup (operands joined '
        'by repeated := :: . = + AS , AND ... behind 0-6 other tokens), char '
        'soup, mutated corpus files, grammar scripts; oracle T1 walks every returned tree at the '
        'quiescent point after parse() (parent pointers, non-empty groups, '
        'no node twice, cached value == text, leaves == the lexer tokens '
        'recorded during the same call, only */operator re-typed); T2 '
        'compares token_index/token_next/token_prev (4 skip combinations)/'
        'get_token_at_offset (every offset <= 400 chars)/within/'
        'has_ancestor/is_child_of with a naive model over .tokens; hooks '
        'M-GRP (icontract on group_tokens/insert_*) and M-PASS (leaf '
        'sequence per grouping pass) localise. distinct_nontrivial = '
        'distinct tree shapes of depth >= 2')
ASSUMPTIONS = ['leaf/lexer comparison uses a tee on Lexer.get_tokens during '
               'the same parse() call; if that hook is unavailable the input '
               'is lexed a second time instead']


def plan(tier):
    return {'shards': 16, 'budget_s': 30 if tier == 'quick' else 450}


def depth_of(stmt):
    return max(d for _, d, _ in oracles.walk(stmt))


def check_text(rec, kind, text, rng, nav=True):
    rec.case()
    case = {'text': text, 'source': kind}
    st = hooks.STATE
    st.reset_streams()
    try:
        stmts = sqlparse.parse(text)
    except sqlparse.exceptions.SQLParseError:
        rec.count('sqlparseerror')
        st.drain_violations()
        return
    except Exception:
        rec.count('other_exception_(C07)')
        st.drain_violations()
        return
    if len(st.lex_streams) == 1:
        lexed = st.lex_streams[0]
        rec.count('lexer_stream_from_tee')
    else:
        lexed = list(sqlparse.lexer.tokenize(text))
        rec.count('lexer_stream_relexed')
    rec.monitor('tree_wellformed')
    err = oracles.tree_wellformed(stmts, lexed)
    if err:
        rec.violation('tree', case, err, key=err[:28])
    for hook, detail in st.drain_violations():
        if hook in ('M-GRP', 'M-PASS'):
            rec.violation('hook-' + hook, case, detail, key=detail[:40])
    if nav and not err:
        for s in stmts[:3]:
            rec.monitor('navigation')
            e, calls = oracles.navigation_agrees(s, rng)
            rec.count('navigation_helper_calls', calls)
            if e:
                rec.violation('navigation', case, e,
                              key=e.split('(')[0][:30])
                break
    for s in stmts[:4]:
        if depth_of(s) >= 2:
            rec.nontrivial(oracles.shape(s))
    rec.hist('source', kind)
    if rec.evaluations % 1499 == 1:
        rec.sample({'source': kind, 'text': text[:240],
                    'shape': repr(oracles.shape(stmts[0]))[:300]
                    if stmts else None})


def shard(ctx):
    rec, rng = ctx.rec, ctx.rng
    hooks.install_all()
    gen = grammar_texts.Source(rng)
    i = 0
    while ctx.running():
        i += 1
        x = rng.random()
        if x < 0.3:
            kind, text = 'tokensoup', hostile.token_soup(rng)
        elif x < 0.46:
            kind, text = 'blocksoup', hostile.block_soup(rng)
        elif x < 0.54:
            kind, text = 'chainsoup', hostile.chain_soup(rng)
        elif x < 0.62:
            kind, text = 'charsoup', hostile.char_soup(rng)
        elif x < 0.72:
            kind, text = 'corpusmut', hostile.corpus_mutation(rng)
        else:
            kind, text = 'grammar', gen.text()
        check_text(rec, kind, text, rng, nav=(i % 2 == 0))
    st = hooks.STATE
    rec.count('group_tokens_calls', st.grp_calls)
    rec.count('group_tokens_contract_checked', st.grp_checked)
    for k, v in st.pass_calls.items():
        rec.hist('pass_calls', k, v)
    rec.note('contracts: ' + st.contracts)
    rec.note('hooks installed: ' + ', '.join(st.installed))
    for u in st.unavailable:
        rec.note('hook unavailable: ' + u)


def replay(ctx, kind, case):
    hooks.install_all()
    check_text(ctx.rec, case.get('source', 'replay'), case['text'],
               random.Random(0))
