"""C08 — targeted filters change exactly their target tokens."""
import sqlparse
from sqlparse import tokens as T
from sqlparse.exceptions import SQLParseError

from vlib import fmtutil, options, oracles

ID = 'C08'
LEVEL = 'exploration'
DECIDING = ['strip_comments', 'keyword_case', 'identifier_case',
            'truncate_strings', 'idempotence']
RULE = ('grammar scripts with comment density up to 0.3 (hints included, '
        'every whitespace spelling) x {strip_comments, keyword_case, '
        'identifier_case in upper/lower/capitalize, truncate_strings N in '
        '{2,3,5,10,40} with/without truncate_char} alone (with idempotence) '
        'and combined with each other and with random layout options '
        '(token-level clauses only); oracle on the re-lexed significant '
        'token streams of input and output: only the targeted tokens '
        'differ, exactly as specified, same count and order. '
        'distinct_nontrivial = distinct (filter set, statement kinds, '
        'feature set) among scripts where the filter had a target')
ASSUMPTIONS = [
    'targets are identified by the real lexer type of the input token: '
    'Keyword subtree for keyword_case; exactly Name or String.Symbol not '
    'starting with a double quote for identifier_case; String.Single for '
    'truncation; Comment subtree minus the Hint types for strip_comments',
    'truncation: "the first N characters" where the N-th character lies '
    "inside an escape sequence ('' or a backslash and the character behind "
    'it) means a cut directly behind or directly in front of that sequence '
    '(a cut through it splits the literal, which the property excludes); '
    'the repaired filter cuts behind it (D10, fixed)',
]


def plan(tier):
    return {'shards': 16, 'budget_s': 35 if tier == 'quick' else 480}


CONV = {'upper': str.upper, 'lower': str.lower,
        'capitalize': str.capitalize}


def is_hint(tt):
    return tt in T.Comment.Single.Hint or tt in T.Comment.Multiline.Hint


def expected_stream(src, opts, cut_before=False):
    """Expected significant-token stream of the output, from the input's.
    cut_before: where the n-th character lies inside an escape sequence the
    cut is made in front of it instead of behind it (both keep the literal
    one token; the property cannot mean a cut through the sequence)."""
    out = []
    targets = 0
    d10 = 0     # truncations whose cut point met an escape sequence
    for tt, v in src:
        if tt in T.Whitespace:
            continue
        if tt in T.Comment:
            if opts.get('strip_comments') and not is_hint(tt):
                targets += 1
                continue
            out.append((tt, oracles.norm_comment(v)))
            continue
        if opts.get('keyword_case') and tt in T.Keyword:
            nv = CONV[opts['keyword_case']](v)
            targets += nv != v
            v = nv
        if opts.get('identifier_case') and (tt == T.Name
                                            or tt == T.String.Symbol) \
                and v.strip()[0] != '"':
            nv = CONV[opts['identifier_case']](v)
            targets += nv != v
            v = nv
        if opts.get('truncate_strings') and tt is T.String.Single:
            n = opts['truncate_strings']
            inner = v[1:-1]
            if len(inner) > n:
                # the first n characters; an escape sequence ('' or a
                # backslash with the character behind it) is never cut in
                # half, the cut moves behind it
                units, i = [], 0
                while i < len(inner):
                    step = 2 if inner[i] in ("'", '\\') else 1
                    units.append(inner[i:i + step])
                    i += step
                cut = ''
                for u in units:
                    if len(cut) >= n or (cut_before
                                         and len(cut) + len(u) > n):
                        break
                    cut += u
                if len(cut) != n:
                    d10 += 1        # the n-th character is inside an escape
                marker = opts.get('truncate_char', '[...]')
                v = "'" + cut + marker + "'"
                targets += 1
        if (tt in T.Keyword or tt in T.Operator or tt is T.Name.Builtin) \
                and not v.isalnum():
            v = oracles.collapse_keyword_ws(v)
        out.append((tt, v))
    return out, targets, d10


def check(ctx, text, opts, meta, alone):
    rec = ctx.rec
    rec.case()
    case = {'text': text, 'options': opts}
    try:
        out = sqlparse.format(text, **dict(opts))
    except SQLParseError as exc:
        # a grammar script of modest depth with valid options: format() has
        # no reason to refuse it, and the property is about its output
        rec.count('sqlparseerror')
        rec.violation('format-refused', case, 'format() raised SQLParseError '
                      '(%s) for a grammar script and valid options %r'
                      % (exc, opts), key=('refused', str(exc)[:30]))
        return
    except Exception:
        rec.count('exception_(C07)')
        return
    src = oracles.lex(text)
    want, targets, d10 = expected_stream(src, opts)
    got = oracles.sig(out)
    if opts.get('truncate_strings') and got != want:
        alt = expected_stream(src, opts, cut_before=True)[0]
        if got == alt:
            want = alt
    for name in ('strip_comments', 'keyword_case', 'identifier_case',
                 'truncate_strings'):
        if opts.get(name):
            rec.monitor(name)
    # compare values; types may legitimately change only for truncation of
    # nothing -- so compare types too
    err = fmtutil.describe_diff(want, got, 'expected/actual token')
    fid = None
    if err:
        if fmtutil.comment_has_quote(text) and not opts.get(
                'strip_comments'):
            fid = ctx.findings.attr('D8')
        rec.violation('targeted-' + '+'.join(sorted(
            k for k in opts if k in ('strip_comments', 'keyword_case',
                                     'identifier_case', 'truncate_strings'))),
            dict(case, output=out), err, key=err.split(':')[0][:10]
            + str(sorted(opts)), finding=fid)
    elif alone:
        rec.monitor('idempotence')
        try:
            again = sqlparse.format(out, **dict(opts))
        except Exception:
            again = None
        # whitespace at statement boundaries is not preserved by format()
        # (each statement is right-stripped, a whitespace-only tail is
        # dropped): judge the statement texts, and the whole text modulo
        # leading/trailing whitespace for a single statement
        same = again is not None and (
            sqlparse.split(again) == sqlparse.split(out)) and (
            len(sqlparse.split(out)) > 1 or again.strip() == out.strip())
        if not same:
            i = fmtutil.first_diff(out, again or '')
            rec.violation('not-idempotent', dict(case, output=out),
                          'second pass changes the output at offset %s: %r '
                          '-> %r' % (i, out[max(0, (i or 0) - 20):(i or 0)
                                            + 20],
                                     (again or '')[max(0, (i or 0) - 20):
                                                   (i or 0) + 20]),
                          key='idem' + str(sorted(opts)),
                          finding=None)
    if targets and meta:
        rec.nontrivial((options.opts_key(opts), meta))
    rec.count('targets_seen', targets)
    rec.count('truncations_at_an_escape_sequence', d10)
    rec.hist('filters', ','.join(sorted(opts)) or '<none>')
    if rec.evaluations % 499 == 1:
        rec.sample({'text': text[:240], 'options': opts,
                    'output': out[:240]})


def shard(ctx):
    rng = ctx.rng
    while ctx.running():
        sc = fmtutil.script_for_format(
            rng, comments=rng.choice([0.0, 0.1, 0.2, 0.3]))
        opts = options.targeted_options(rng)
        alone = True
        if rng.random() < 0.3:
            opts.update(options.layout_options(rng, p=0.25))
            alone = False
        meta = (tuple(s.kind for s in sc.stmts),
                tuple(sorted(sc.features())))
        check(ctx, sc.text, opts, meta, alone)


def replay(ctx, kind, case):
    check(ctx, case['text'], case.get('options', {}), None, True)


def witness(w):
    text, opts = w['input'], w.get('options', {})
    out = sqlparse.format(text, **opts)
    want, _, _ = expected_stream(oracles.lex(text), opts)
    err = fmtutil.describe_diff(want, oracles.sig(out))
    return (err is not None), err or ''
