"""C11 — parsing is insensitive to inter-token whitespace and keyword
letter case (two-spelling metamorphic monitor)."""
import sqlparse
from sqlparse import tokens as T

from vlib import grammar, oracles

ID = 'C11'
LEVEL = 'exploration'
DECIDING = ['respelling_equivalence']
TECHNIQUE = ('runtime monitoring: metamorphic monitor, one derivation '
             'executed under two spellings, observations compared')
RULE = ('one derivation of the verification grammar (1-3 statements) is '
        'rendered twice: base = single blanks, upper-case keywords; '
        'respelling = any of three independently switched axes: outer '
        'whitespace (every non-empty gap replaced by blanks/tabs/LF/CRLF/CR '
        'runs; empty gaps stay empty), inner whitespace of every multi-word '
        'keyword (ORDER BY, GROUP BY, UNION ALL, all JOIN variants, NOT '
        'NULL, ASC/DESC NULLS FIRST/LAST, CREATE OR REPLACE, NOT LIKE, '
        'PRIMARY KEY), letter case of every keyword; 15 % of the cases are '
        'procedural scripts (statement; CREATE [OR REPLACE] PROCEDURE|'
        'FUNCTION with nested IF/END IF, WHILE/END WHILE, LOOP/END LOOP, '
        'BEGIN/END, CASE expressions; statement;) respelled on the same '
        'three axes. Oracle: same statement '
        'count, same significant tokens modulo keyword spelling, same '
        'get_type(), same tree shape (class names, leaf types, whitespace '
        'leaves ignored). distinct_nontrivial = distinct (axes, statement '
        'kinds, features) where the respelling changed the text')
ASSUMPTIONS = ['no comments in these scripts (the property is about '
               'whitespace and keyword case)']


def plan(tier):
    return {'shards': 16, 'budget_s': 30 if tier == 'quick' else 450}


def normtok(leaf):
    v = leaf.value
    if leaf.ttype in T.Keyword or leaf.ttype in T.Operator.Comparison \
            or leaf.ttype is T.Name.Builtin:
        q = v.find("'")
        if q < 0:
            v = ' '.join(v.upper().split())
        else:      # AT TIME ZONE 'zone': the literal part stays as written
            v = ' '.join(v[:q].upper().split()) + ' ' + v[q:]
    return (str(leaf.ttype), v)


def observe(text):
    stmts = sqlparse.parse(text)
    out = []
    for s in stmts:
        toks = [normtok(l) for l in oracles.leaves(s)
                if not l.is_whitespace]
        out.append((toks, s.get_type(), oracles.shape(s)))
    return out


def first_shape_diff(a, b, path='root'):
    if isinstance(a, str) or isinstance(b, str):
        return None if a == b else '%s: %s vs %s' % (path, a, b)
    if a[0] != b[0]:
        return '%s: %s vs %s' % (path, a[0], b[0])
    if len(a[1]) != len(b[1]):
        return '%s/%s: %d vs %d children (%s | %s)' % (
            path, a[0], len(a[1]), len(b[1]),
            [x if isinstance(x, str) else x[0] for x in a[1]][:8],
            [x if isinstance(x, str) else x[0] for x in b[1]][:8])
    for i, (x, y) in enumerate(zip(a[1], b[1])):
        d = first_shape_diff(x, y, '%s/%s[%d]' % (path, a[0], i))
        if d:
            return d
    return None


def check(ctx, base, resp, axes, meta):
    rec = ctx.rec
    rec.case()
    case = {'base': base, 'respelled': resp, 'axes': axes}
    try:
        a = observe(base)
        b = observe(resp)
    except Exception:
        rec.count('exception_(C07)')
        return
    rec.monitor('respelling_equivalence')
    if len(a) != len(b):
        rec.violation('statement-count', case, '%d statements vs %d after '
                      'respelling' % (len(a), len(b)), key=('n', axes))
        return
    for i, (x, y) in enumerate(zip(a, b)):
        if x[0] != y[0]:
            k = 0
            while k < min(len(x[0]), len(y[0])) and x[0][k] == y[0][k]:
                k += 1
            rec.violation('tokens', case, 'statement %d: significant token '
                          '%d differs: %r vs %r' % (
                              i, k, x[0][k:k + 2], y[0][k:k + 2]),
                          key=('t', axes))
            return
        if x[1] != y[1]:
            rec.violation('get_type', case, 'statement %d: get_type %r vs %r'
                          % (i, x[1], y[1]), key=('g', axes))
            return
        if x[2] != y[2]:
            rec.violation('shape', case, 'statement %d: tree shape differs '
                          'at %s' % (i, first_shape_diff(x[2], y[2])),
                          key=('s', axes,
                               (first_shape_diff(x[2], y[2]) or '')[-40:]))
            return
    if base != resp:
        rec.nontrivial((axes, meta))
    rec.hist('axes', axes)
    if rec.evaluations % 499 == 1:
        rec.sample({'base': base[:200], 'respelled': resp[:200],
                    'axes': axes})


def make_pair(rng, gen):
    n = rng.choice([1, 1, 2, 3])
    stmts = [gen.statement() for _ in range(n)]
    outer = rng.random() < 0.6
    inner = rng.random() < 0.5
    case = rng.random() < 0.6
    if not (outer or inner or case):
        outer = True
    base_l = grammar.Layout(rng, ws='single', comments=0, kwcase='upper',
                            inner='single')
    resp_l = grammar.Layout(rng, ws='mixed' if outer else 'single',
                            comments=0,
                            kwcase='mixed' if case else 'upper',
                            inner='mixed' if inner else 'single')
    bparts, rparts = [], []
    for st in stmts:
        out = []
        spans, used = grammar.render_statement(st, base_l, out)
        bparts.append(''.join(out))
        presence = [g != '' for g in used]
        out2 = []
        grammar.render_statement(st, resp_l, out2, gap_presence=presence)
        rparts.append(''.join(out2))
    base = '; '.join(bparts) + ';'
    sep = '; ' if not outer else ';' + rng.choice([' ', '\n', '\n\n', '\t',
                                                   ' \r\n'])
    resp = sep.join(rparts) + ';'
    axes = '+'.join(x for x, on in (('outer', outer), ('inner', inner),
                                    ('case', case)) if on)
    meta = (tuple(s.kind for s in stmts),
            tuple(sorted(set().union(*[s.features for s in stmts]))))
    return base, resp, axes, meta


# ---- procedural scripts (END IF, END WHILE, END LOOP, CREATE OR REPLACE) -----
WS_RUNS = [' ', '  ', '\t', '\n', '\n  ', '\r\n', ' \n', '\t\t', '   ']


def proc_tokens(rng):
    """[(text, is keyword)] of: statement; CREATE ... BEGIN body END;
    statement; - the body uses the block forms the splitter's level protocol
    handles (C17's clean sub-grammar)."""
    K = lambda w: (w, True)          # noqa: E731
    N = lambda w: (w, False)         # noqa: E731
    names = ['a', 'b', 'cnt', 'v1', 'total', 'x']

    def cond():
        return [N(rng.choice(names)), N(rng.choice(['=', '>', '<'])),
                N(rng.choice(['1', "'x'", 'b']))]

    def simple():
        x = rng.random()
        if x < 0.3:
            return [K('SET'), N(rng.choice(names)), N('='),
                    N(rng.choice(['1', "'end'", 'a + 1'])), N(';')]
        if x < 0.55:
            return [K('SELECT'), N(rng.choice(names)), K('INTO'),
                    N(rng.choice(names)), K('FROM'), N('t'), K('WHERE')] \
                + cond() + [N(';')]
        if x < 0.7:
            return [K('RETURN'), N('1'), N(';')]
        if x < 0.85:
            return [K('SET'), N('x'), N('='), K('CASE'), K('WHEN')] + cond() \
                + [K('THEN'), N('1'), K('ELSE'), N('2'), K('END'), N(';')]
        return [K('UPDATE'), N('t'), K('SET'), N('a'), N('='), N('1'),
                K('WHERE')] + cond() + [K('ORDER BY'), N('a'), N(';')]

    def items(d):
        out = []
        for _ in range(rng.randint(1, 3)):
            x = rng.random()
            if d <= 0 or x < 0.45:
                out += simple()
            elif x < 0.65:
                out += [K('IF')] + cond() + [K('THEN')] + items(d - 1)
                if rng.random() < 0.5:
                    out += [K('ELSE')] + items(d - 1)
                out += [K('END IF'), N(';')]
            elif x < 0.8:
                out += [K('WHILE')] + cond() + [K('DO')] + items(d - 1) \
                    + [K('END WHILE'), N(';')]
            elif x < 0.9:
                out += [K('LOOP')] + items(d - 1) + [K('END LOOP'), N(';')]
            else:
                out += [K('BEGIN')] + items(d - 1) + [K('END'), N(';')]
        return out
    toks = [K('SELECT'), N('1'), N(';')]
    what = rng.choice(['PROCEDURE', 'FUNCTION'])
    toks += [K(rng.choice(['CREATE', 'CREATE OR REPLACE'])), K(what),
             N('p1()')]
    if what == 'FUNCTION':
        toks += [K('RETURNS'), N('int')]
    toks += [K('BEGIN')] + items(rng.choice([1, 2, 2, 3])) + [K('END'),
                                                             N(';')]
    toks += [K('SELECT'), N('a'), K('FROM'), N('t'), K('GROUP BY'), N('a'),
             N(';')]
    if rng.random() < 0.5:
        toks += [K('COMMIT'), N(';')]
    return toks


def make_proc_pair(rng):
    toks = proc_tokens(rng)
    outer = rng.random() < 0.6
    inner = rng.random() < 0.6
    case = rng.random() < 0.5
    if not (outer or inner or case):
        inner = True

    def spell(respell):
        out = []
        for i, (w, kw) in enumerate(toks):
            if i and w != ';':
                out.append(rng.choice(WS_RUNS) if respell and outer else ' ')
            if kw:
                parts = w.split(' ')
                if respell and case:
                    parts = [''.join(c.lower() if rng.random() < 0.5 else c
                                     for c in x) for x in parts]
                w = (rng.choice(WS_RUNS) if respell and inner
                     else ' ').join(parts)
            out.append(w)
        return ''.join(out)
    axes = 'proc:' + '+'.join(x for x, on in (
        ('outer', outer), ('inner', inner), ('case', case)) if on)
    kws = tuple(sorted({w for w, kw in toks if kw and ' ' in w}))
    return spell(False), spell(True), axes, ('procedural', kws)


def shard(ctx):
    rng = ctx.rng
    gen = grammar.Gen(rng)
    while ctx.running():
        if rng.random() < 0.15:
            base, resp, axes, meta = make_proc_pair(rng)
        else:
            base, resp, axes, meta = make_pair(rng, gen)
        check(ctx, base, resp, axes, meta)


def replay(ctx, kind, case):
    check(ctx, case['base'], case['respelled'], case.get('axes', '?'), None)


def witness(w):
    a, b = observe(w['base']), observe(w['respelled'])
    return a != b, 'observations differ' if a != b else ''
