"""C11 — parsing is insensitive to inter-token whitespace and keyword
letter case (two-spelling metamorphic monitor)."""
import sqlparse
from sqlparse import tokens as T

from vlib import grammar, oracles

ID = 'C11'
LEVEL = 'exploration'
DECIDING = ['respelling_equivalence']
TECHNIQUE = ('runtime monitoring: metamorphic monitor, one derivation '
             'executed under two spellings, observations compared')
RULE = ('one derivation of the verification grammar (1-3 statements) is '
        'rendered twice: base = single blanks, upper-case keywords; '
        'respelling = any of three independently switched axes: outer '
        'whitespace (every non-empty gap replaced by blanks/tabs/LF/CRLF/CR '
        'runs; empty gaps stay empty), inner whitespace of every multi-word '
        'keyword (ORDER BY, GROUP BY, UNION ALL, all JOIN variants, NOT '
        'NULL, ASC/DESC NULLS FIRST/LAST, CREATE OR REPLACE, NOT LIKE, '
        'PRIMARY KEY), letter case of every keyword. Oracle: same statement '
        'count, same significant tokens modulo keyword spelling, same '
        'get_type(), same tree shape (class names, leaf types, whitespace '
        'leaves ignored). distinct_nontrivial = distinct (axes, statement '
        'kinds, features) where the respelling changed the text')
ASSUMPTIONS = ['no comments in these scripts (the property is about '
               'whitespace and keyword case)']


def plan(tier):
    return {'shards': 16, 'budget_s': 30 if tier == 'quick' else 450}


def normtok(leaf):
    v = leaf.value
    if leaf.ttype in T.Keyword or leaf.ttype in T.Operator.Comparison \
            or leaf.ttype is T.Name.Builtin:
        q = v.find("'")
        if q < 0:
            v = ' '.join(v.upper().split())
        else:      # AT TIME ZONE 'zone': the literal part stays as written
            v = ' '.join(v[:q].upper().split()) + ' ' + v[q:]
    return (str(leaf.ttype), v)


def observe(text):
    stmts = sqlparse.parse(text)
    out = []
    for s in stmts:
        toks = [normtok(l) for l in oracles.leaves(s)
                if not l.is_whitespace]
        out.append((toks, s.get_type(), oracles.shape(s)))
    return out


def first_shape_diff(a, b, path='root'):
    if isinstance(a, str) or isinstance(b, str):
        return None if a == b else '%s: %s vs %s' % (path, a, b)
    if a[0] != b[0]:
        return '%s: %s vs %s' % (path, a[0], b[0])
    if len(a[1]) != len(b[1]):
        return '%s/%s: %d vs %d children (%s | %s)' % (
            path, a[0], len(a[1]), len(b[1]),
            [x if isinstance(x, str) else x[0] for x in a[1]][:8],
            [x if isinstance(x, str) else x[0] for x in b[1]][:8])
    for i, (x, y) in enumerate(zip(a[1], b[1])):
        d = first_shape_diff(x, y, '%s/%s[%d]' % (path, a[0], i))
        if d:
            return d
    return None


def check(ctx, base, resp, axes, meta):
    rec = ctx.rec
    rec.case()
    case = {'base': base, 'respelled': resp, 'axes': axes}
    try:
        a = observe(base)
        b = observe(resp)
    except Exception:
        rec.count('exception_(C07)')
        return
    rec.monitor('respelling_equivalence')
    if len(a) != len(b):
        rec.violation('statement-count', case, '%d statements vs %d after '
                      'respelling' % (len(a), len(b)), key=('n', axes))
        return
    for i, (x, y) in enumerate(zip(a, b)):
        if x[0] != y[0]:
            k = 0
            while k < min(len(x[0]), len(y[0])) and x[0][k] == y[0][k]:
                k += 1
            rec.violation('tokens', case, 'statement %d: significant token '
                          '%d differs: %r vs %r' % (
                              i, k, x[0][k:k + 2], y[0][k:k + 2]),
                          key=('t', axes))
            return
        if x[1] != y[1]:
            rec.violation('get_type', case, 'statement %d: get_type %r vs %r'
                          % (i, x[1], y[1]), key=('g', axes))
            return
        if x[2] != y[2]:
            rec.violation('shape', case, 'statement %d: tree shape differs '
                          'at %s' % (i, first_shape_diff(x[2], y[2])),
                          key=('s', axes,
                               (first_shape_diff(x[2], y[2]) or '')[-40:]))
            return
    if base != resp:
        rec.nontrivial((axes, meta))
    rec.hist('axes', axes)
    if rec.evaluations % 499 == 1:
        rec.sample({'base': base[:200], 'respelled': resp[:200],
                    'axes': axes})


def make_pair(rng, gen):
    n = rng.choice([1, 1, 2, 3])
    stmts = [gen.statement() for _ in range(n)]
    outer = rng.random() < 0.6
    inner = rng.random() < 0.5
    case = rng.random() < 0.6
    if not (outer or inner or case):
        outer = True
    base_l = grammar.Layout(rng, ws='single', comments=0, kwcase='upper',
                            inner='single')
    resp_l = grammar.Layout(rng, ws='mixed' if outer else 'single',
                            comments=0,
                            kwcase='mixed' if case else 'upper',
                            inner='mixed' if inner else 'single')
    bparts, rparts = [], []
    for st in stmts:
        out = []
        spans, used = grammar.render_statement(st, base_l, out)
        bparts.append(''.join(out))
        presence = [g != '' for g in used]
        out2 = []
        grammar.render_statement(st, resp_l, out2, gap_presence=presence)
        rparts.append(''.join(out2))
    base = '; '.join(bparts) + ';'
    sep = '; ' if not outer else ';' + rng.choice([' ', '\n', '\n\n', '\t',
                                                   ' \r\n'])
    resp = sep.join(rparts) + ';'
    axes = '+'.join(x for x, on in (('outer', outer), ('inner', inner),
                                    ('case', case)) if on)
    meta = (tuple(s.kind for s in stmts),
            tuple(sorted(set().union(*[s.features for s in stmts]))))
    return base, resp, axes, meta


def shard(ctx):
    rng = ctx.rng
    gen = grammar.Gen(rng)
    while ctx.running():
        base, resp, axes, meta = make_pair(rng, gen)
        check(ctx, base, resp, axes, meta)


def replay(ctx, kind, case):
    check(ctx, case['base'], case['respelled'], case.get('axes', '?'), None)


def witness(w):
    a, b = observe(w['base']), observe(w['respelled'])
    return a != b, 'observations differ' if a != b else ''
