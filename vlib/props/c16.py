"""C16 — no lexical rule can backtrack exponentially (concrete clause:
generated pump strings tokenize within a fixed CPU budget and cost grows
polynomially)."""
import math
import re
import resource
import signal
import time

try:
    import re._parser as sre_parse
    import re._constants as sre_c
except ImportError:          # pragma: no cover  (python < 3.11)
    import sre_parse
    import sre_constants as sre_c

from sqlparse import keywords, lexer

ID = 'C16'
LEVEL = 'exploration'
DECIDING = ['cpu_budget_small_n', 'growth']
TECHNIQUE = ('runtime monitoring: CPU-time monitor (process CPU time, '
             'interval timer + RLIMIT_CPU backstop) on generated pump '
             'strings')
RULE = ('pump strings prefix + unit^n + suffix. Rule-derived: for every '
        'rule of SQL_REGEX random matching strings are generated from its '
        'parse tree (re._parser), a substring of each is pumped in place and '
        'the match is made to fail or barely succeed by cutting / altering '
        'the tail. Rule-independent: every ordered pair of a 49-atom '
        'alphabet as unit x 7 prefixes x 3 suffixes. Monitor 1: n = 32 and '
        '64 must tokenize within 2 CPU-seconds (exponential ambiguity needs '
        '>= 2^32 steps there). Monitor 2: pumps stretched to 1000/2000/4000 '
        'characters within 10 CPU-s each, fitted exponent '
        'log(t4000/t1000)/log 4 <= 3.5 (judged only if t4000 > 1 CPU-s). '
        'distinct_nontrivial = distinct (prefix, unit, suffix) pumps whose '
        'unit is accepted by some rule more than once')
ASSUMPTIONS = [
    'decides the concrete clause of C16 only; absence of exponential '
    'ambiguity as a structural fact of the regexes is not decidable by '
    'observing runs',
    'CPU time of the tokenize call (time.process_time), never wall time; a '
    'pump that exceeds its CPU budget is interrupted by ITIMER_VIRTUAL '
    '(sre polls signals) and reported with the pump as replay',
]

SMALL_BUDGET = 2.0
BIG_BUDGET = 10.0


class CpuBudgetExceeded(Exception):
    pass


def _on_timer(signum, frame):
    raise CpuBudgetExceeded()


def timed_tokenize(text, budget):
    """CPU seconds used, or None if the budget was exceeded."""
    signal.signal(signal.SIGVTALRM, _on_timer)
    t0 = time.process_time()
    signal.setitimer(signal.ITIMER_VIRTUAL, budget)
    try:
        for _ in lexer.tokenize(text):
            pass
        return time.process_time() - t0
    except CpuBudgetExceeded:
        return None
    finally:
        signal.setitimer(signal.ITIMER_VIRTUAL, 0)


def plan(tier):
    return {'shards': 16, 'budget_s': 30 if tier == 'quick' else 420}


# ---- strings from a regex parse tree ---------------------------------------
def gen_from(pattern, rng, rep):
    out = []
    for op, av in pattern:
        out.append(gen_op(op, av, rng, rep))
    return ''.join(out)


def pick_in(av, rng):
    negate = False
    choices = []
    for op, v in av:
        if op is sre_c.NEGATE:
            negate = True
        elif op is sre_c.LITERAL:
            choices.append(chr(v))
        elif op is sre_c.RANGE:
            lo, hi = v
            choices.append(chr(rng.randint(lo, min(hi, lo + 40))))
        elif op is sre_c.CATEGORY:
            name = str(v)
            if 'NOT' in name:
                choices.append(rng.choice('-;(*'))
            elif 'DIGIT' in name:
                choices.append(rng.choice('0123456789'))
            elif 'SPACE' in name:
                choices.append(rng.choice(' \t\n'))
            elif 'WORD' in name:
                choices.append(rng.choice('ab1_Z'))
            else:
                choices.append('a')
    if negate:
        bad = set(choices)
        for c in 'a 1\'"`-*/\n\\$x;(':
            if c not in bad:
                if rng.random() < 0.5:
                    return c
        for c in 'qwertyuiopasdfghjkl':
            if c not in bad:
                return c
        return '~'
    return rng.choice(choices) if choices else 'a'


def gen_op(op, av, rng, rep):
    if op is sre_c.LITERAL:
        return chr(av)
    if op is sre_c.NOT_LITERAL:
        return 'a' if chr(av) != 'a' else 'b'
    if op is sre_c.ANY:
        return rng.choice('a b\'"x-*')
    if op is sre_c.IN:
        return pick_in(av, rng)
    if op is sre_c.BRANCH:
        return gen_from(rng.choice(av[1]), rng, rep)
    if op is sre_c.SUBPATTERN:
        return gen_from(av[3], rng, rep)
    if op in (sre_c.MAX_REPEAT, sre_c.MIN_REPEAT):
        lo, hi, sub = av
        n = lo if hi == lo else min(hi, lo + rng.choice([0, 1, 2, rep]))
        return ''.join(gen_from(sub, rng, rep) for _ in range(n))
    if op in (sre_c.ASSERT, sre_c.ASSERT_NOT, sre_c.AT):
        return ''
    if op is sre_c.GROUPREF:
        return '$a$' if False else ''
    if op is sre_c.CATEGORY:
        return 'a'
    return ''


def rule_pumps(rng, rule_index, rx):
    """Yield (prefix, unit, suffix) derived from one rule."""
    try:
        tree = sre_parse.parse(rx, re.IGNORECASE | re.UNICODE)
    except Exception:
        return
    for _ in range(6):
        s = gen_from(tree, rng, rng.choice([1, 2, 3]))
        if not s:
            continue
        for _ in range(4):
            i = rng.randrange(len(s))
            j = min(len(s), i + rng.choice([1, 2, 3, 4, 5, 8, 12, 16]))
            unit = s[i:j]
            tail = s[j:]
            x = rng.random()
            if x < 0.3:
                tail = tail[:-1]                 # lose the terminator
            elif x < 0.5:
                tail = ''
            elif x < 0.7:
                tail = tail[:-1] + rng.choice(['x', '\n', ' ', '\\', '!'])
            yield s[:i], unit, tail


ALPHABET = ["'", '"', '`', '´', '$', '$$', '$a$', '-', '--', '#', '# ', '/',
            '*', '/*', '*/', '\\', "\\'", '\\"', "''", '""', ' ', '\t', '\n',
            '\r\n', 'a', 'A', '1', '_', '.', ',', ';', '(', ')', '[', ']',
            ':', '::', ':=', '=', '<', '>', '+', '%', '?', '@', 'e', '0x',
            'é', 'E-']
assert len(ALPHABET) == 49
PREFIXES = ['', "'", '"', '/*', '--', '$a$', 'x ']
SUFFIXES = ['', '\n', 'x']


def generic_pumps(shard, nshards):
    k = 0
    for a in ALPHABET:
        for b in ALPHABET:
            for p in PREFIXES:
                for s in SUFFIXES:
                    if k % nshards == shard:
                        yield p, a + b, s
                    k += 1


KEYWORD_PUMPS = [('select * from a ', 'left outer ', 'x'),
                 ('', 'left outer ', 'joi'), ('', 'natural cross ', 'x'),
                 ('group ', '/**/', ' x'), ('order ', '/* c */ ', 'b'),
                 ('primary', ' ', 'x'), ('union', ' ', 'x'),
                 ('double', ' \t', 'x'), ('handler', '  ', 'x'),
                 ('create', ' or ', 'x'), ('desc', ' nulls ', 'x'),
                 ('', 'LEFT ', 'JOIN'), ('', 'END ', 'x'), ('NOT', ' ', 'x'),
                 ('ASC', ' NULLS', ' '), ('GROUP', ' \n', 'x'),
                 ('CREATE', ' OR', ' x'), ("AT TIME ZONE '", 'a', ''),
                 ('LATERAL', ' VIEW ', 'x'), ('GO', ' 1', 'x'),
                 ('', 'NATURAL\t', 'JOI'), ('UNION', '\r\n', 'AL')]


def check_small(rec, pump):
    p, u, s = pump
    worst = 0.0
    for n in (32, 64):
        text = p + u * n + s
        rec.monitor('cpu_budget_small_n')
        t = timed_tokenize(text, SMALL_BUDGET)
        if t is None:
            rec.violation('cpu-budget', {'prefix': p, 'unit': u, 'suffix': s,
                                         'n': n},
                          'prefix %r + unit %r x %d + suffix %r (%d chars) '
                          'did not tokenize within %.0f CPU-seconds'
                          % (p, u, n, s, len(text), SMALL_BUDGET),
                          key=(p, u, s))
            return None
        worst = max(worst, t)
    return worst


def check_growth(rec, pump):
    p, u, s = pump
    ts = []
    for total in (1000, 2000, 4000):
        n = max(1, (total - len(p) - len(s)) // max(1, len(u)))
        text = p + u * n + s
        t = timed_tokenize(text, BIG_BUDGET)
        if t is None:
            rec.monitor('growth')
            rec.violation('cpu-budget-4000', {'prefix': p, 'unit': u,
                                              'suffix': s, 'chars': total},
                          'pump of %d characters (unit %r) did not tokenize '
                          'within %.0f CPU-seconds' % (total, u, BIG_BUDGET),
                          key=(p, u, s, 'big'))
            return
        ts.append(max(t, 1e-6))
    rec.monitor('growth')
    # CPU accounting in this sandbox is tick based (about 4 ms), so an
    # exponent is only meaningful when the 4000-character run is long
    expo = math.log(max(ts[2], 0.004) / max(ts[0], 0.004)) / math.log(4)
    if ts[2] >= 0.1:
        rec.hist('growth_exponent', '%.1f' % (round(expo * 2) / 2))
    else:
        rec.hist('growth_exponent', 't4000<0.1s (not fitted)')
    cur = rec.counters.get('max_cpu_ms_4000_chars', 0)
    rec.counters['max_cpu_ms_4000_chars'] = max(cur, int(ts[2] * 1000))
    if expo > 3.5 and ts[2] > 1.0:
        rec.violation('growth', {'prefix': p, 'unit': u, 'suffix': s},
                      'cost grows with exponent %.2f (t1000=%.3f, '
                      't4000=%.3f CPU-s)' % (expo, ts[0], ts[2]),
                      key=(p, u, s, 'g'))


def shard(ctx):
    rec, rng = ctx.rec, ctx.rng
    # backstop: the whole shard may never burn more than this
    limit = int(ctx.budget_s * 3 + 120)
    try:
        resource.setrlimit(resource.RLIMIT_CPU, (limit, limit + 30))
    except (ValueError, OSError):
        pass
    rules = list(keywords.SQL_REGEX)
    pumps = []
    for i, (rx, tt) in enumerate(rules):
        if i % ctx.nshards == ctx.shard % ctx.nshards or True:
            for pump in rule_pumps(rng, i, rx):
                pumps.append(('rule%d' % i, pump))
    for pump in KEYWORD_PUMPS:
        pumps.append(('keyword', pump))
    rng.shuffle(pumps)
    # generic pumps: full cross product sharded (thorough) / strided (quick)
    gen = list(generic_pumps(ctx.shard, ctx.nshards))
    if ctx.tier == 'quick':
        rng.shuffle(gen)
    growth_every = 40 if ctx.tier == 'quick' else 10
    k = 0
    worst = 0.0
    it = iter(gen)
    ri = 0
    done_generic = False
    while ctx.running():
        k += 1
        if k % 3 == 0 and ri < len(pumps):
            src, pump = pumps[ri]
            ri += 1
        else:
            try:
                src, pump = 'generic', next(it)
            except StopIteration:
                done_generic = True
                if ri < len(pumps):
                    src, pump = pumps[ri]
                    ri += 1
                else:
                    pumps = [('rule%d' % i, p) for i, (rx, tt) in
                             enumerate(rules) for p in rule_pumps(rng, i, rx)]
                    ri = 0
                    continue
        rec.case()
        w = check_small(rec, pump)
        if w is not None:
            worst = max(worst, w)
            if k % growth_every == 0:
                check_growth(rec, pump)
        rec.hist('pump_source', src)
        u = pump[1]
        rec.nontrivial(pump)
        if rec.evaluations % 1999 == 1:
            rec.sample({'source': src, 'prefix': pump[0], 'unit': pump[1],
                        'suffix': pump[2]})
    rec.counters['max_cpu_ms_small_n'] = int(worst * 1000)
    rec.count('generic_cross_product_completed', 1 if done_generic else 0)


def finalize(agg, tier):
    # counters were summed over shards; the max_* ones are maxima per shard
    # summed -- keep them as upper bounds but say so
    agg['notes'].append('max_cpu_ms_* counters are sums of the per-shard '
                        'maxima (upper bounds of the real maximum)')


def replay(ctx, kind, case):
    pump = (case['prefix'], case['unit'], case['suffix'])
    w = check_small(ctx.rec, pump)
    if w is not None:
        check_growth(ctx.rec, pump)
