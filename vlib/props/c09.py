"""C09 — bracketed and block groups are exactly the properly matched
pairs (reference stack matcher vs the real tree)."""
import random

import sqlparse
from sqlparse import sql, tokens as T

from vlib import grammar, hooks, hostile, oracles, procgrammar
from vlib.props import c07

ID = 'C09'
LEVEL = 'exploration'
DECIDING = ['matcher_vs_tree']
TECHNIQUE = ('runtime monitoring: independent reference model (textbook '
             'stack matcher over the leaf stream) compared online with the '
             'tree the real grouping engine built')
RULE = ('inputs: bracket/keyword soup (balanced, unbalanced, interleaved '
        '( ) [ ] CASE END IF "END IF" FOR FOREACH "END LOOP" BEGIN with ::, '
        ':=, AS, commas, dots, comments between), near-valid scripts, '
        'grammar and procedural scripts, token soup, and (0.4 %) matched '
        'pairs nested 40-160 deep or 1500-4000 sibling groups in one list. '
        'Oracle: the multiset of '
        '(class, opener leaf index, closer leaf index) of all Parenthesis/'
        'SquareBrackets/Case/If/For/Begin nodes equals what a stack matcher '
        'finds (kinds in the engine\'s order, later kinds inside - never '
        'across - earlier groups, innermost first, unmatched tokens left); '
        'every node starts with its opener and, ignoring trailing '
        'whitespace/comments, ends with its closer. distinct_nontrivial = '
        'distinct delimiter sequences (>= 2 delimiter tokens)')
ASSUMPTIONS = [
    'openers/closers are recognised in the leaf stream by exact lexer type '
    '(Punctuation / Keyword) and whitespace-collapsed upper-cased value',
    'single-blank spellings here; respelling is C11',
]

KINDS = [
    ('SquareBrackets', T.Punctuation, ('[',), (']',)),
    ('Parenthesis', T.Punctuation, ('(',), (')',)),
    ('Case', T.Keyword, ('CASE',), ('END',)),
    ('If', T.Keyword, ('IF',), ('END IF',)),
    ('For', T.Keyword, ('FOR', 'FOREACH'), ('END LOOP',)),
    ('Begin', T.Keyword, ('BEGIN',), ('END',)),
]
CLASSES = {k[0] for k in KINDS}


def plan(tier):
    return {'shards': 16, 'budget_s': 30 if tier == 'quick' else 450}


class G:
    __slots__ = ('kind', 'items', 'o', 'c')

    def __init__(self, kind, items, o, c):
        self.kind, self.items, self.o, self.c = kind, items, o, c


def norm(v):
    return ' '.join(v.upper().split())


def model(leaves):
    """leaves: list of (ttype, value). Returns sorted list of
    (kind, opener index, closer index)."""
    root = list(range(len(leaves)))

    def region(items, kind, tt, opens, closes):
        out = []
        stack = []
        for it in items:
            if isinstance(it, G):
                if it.kind != kind:
                    it.items[1:-1] = region(it.items[1:-1], kind, tt, opens,
                                            closes)
                out.append(it)
                continue
            ltt, lv = leaves[it]
            if ltt is tt:
                nv = lv if tt is T.Punctuation else norm(lv)
                if nv in opens:
                    stack.append(len(out))
                    out.append(it)
                    continue
                if nv in closes:
                    if stack:
                        o = stack.pop()
                        grp = G(kind, out[o:] + [it], out[o], it)
                        del out[o:]
                        out.append(grp)
                        continue
            out.append(it)
        return out
    for kind, tt, opens, closes in KINDS:
        root = region(root, kind, tt, opens, closes)
    found = []
    stack = list(root)
    while stack:
        it = stack.pop()
        if isinstance(it, G):
            found.append((it.kind, it.o, it.c))
            stack.extend(it.items)
    return sorted(found)


def tree_groups(stmt):
    """(list of (class, opener leaf idx, closer leaf idx) , error)."""
    leaf_index = {}
    lv = oracles.leaves(stmt)
    for i, l in enumerate(lv):
        leaf_index[id(l)] = i
    found = []
    for node, depth, parent in oracles.walk(stmt):
        name = type(node).__name__
        if name not in CLASSES or not node.is_group:
            continue
        kids = list(node.tokens)
        first = kids[0]
        if first.is_group:
            return None, '%s %r starts with a group, not its opener' % (
                name, node.value[:40])
        while kids and (kids[-1].is_whitespace
                        or isinstance(kids[-1], sql.Comment)
                        or (kids[-1].ttype is not None
                            and kids[-1].ttype in T.Comment)):
            kids.pop()
        last = kids[-1] if kids else None
        if last is None or last.is_group:
            return None, '%s %r does not end with its closer' % (
                name, node.value[:40])
        found.append((name, leaf_index[id(first)], leaf_index[id(last)]))
    return sorted(found), None


def check_text(ctx, kind, text):
    rec = ctx.rec
    rec.case()
    case = {'text': text, 'source': kind}
    try:
        stmts = sqlparse.parse(text)
    except Exception:
        rec.count('exception_(C07)')
        return
    for s in stmts:
        lv = oracles.leaves(s)
        leaves = [(l.ttype, l.value) for l in lv]
        rec.monitor('matcher_vs_tree')
        want = model(leaves)
        got, err = tree_groups(s)
        if err:
            rec.violation('delimiters', case, err, key=err.split()[0])
            continue
        # opener / closer of each tree node must be real delimiters
        if got != want:
            only_tree = [g for g in got if g not in want]
            only_model = [g for g in want if g not in got]

            def show(g):
                return '%s[%d:%r..%d:%r]' % (g[0], g[1], leaves[g[1]][1],
                                             g[2], leaves[g[2]][1])
            rec.violation('matching', case,
                          'tree and stack matcher disagree in statement %r: '
                          'only in tree %s; only in model %s'
                          % (s.value[:60], [show(g) for g in only_tree[:4]],
                             [show(g) for g in only_model[:4]]),
                          key=(tuple(g[0] for g in only_tree[:2]),
                               tuple(g[0] for g in only_model[:2])))
        delims = tuple(norm(v) for tt, v in leaves
                       if (tt is T.Punctuation and v in '()[]')
                       or (tt is T.Keyword and norm(v) in (
                           'CASE', 'END', 'IF', 'END IF', 'FOR', 'FOREACH',
                           'END LOOP', 'BEGIN')))
        if len(delims) >= 2:
            rec.nontrivial(delims)
        for g in got:
            rec.hist('groups_by_class', g[0])
    rec.hist('source', kind)
    if rec.evaluations % 1499 == 1:
        rec.sample({'source': kind, 'text': text[:200]})


def deep_or_wide(rng):
    """Properly matched pairs nested 40-160 deep, or 1500-4000 sibling
    groups in one list: size must not change what is a matched pair."""
    x = rng.random()
    inner = rng.choice(['1', 'case when a then 1 end', 'a[1]', '(x)',
                        'begin x end', 'f(1, 2)'])
    if x < 0.5:
        d = rng.choice([40, 70, 101, 130, 160])
        o, c = rng.choice([('(', ')'), ('(', ')'), ('f(', ')'),
                           ('case when a then ', ' end'), ('a[', ']'),
                           ('( ', ' )')])
        return 'deep', 'select ' + o * d + inner + c * d + ' from t'
    n = rng.choice([1500, 2600, 4000])
    if x < 0.8:
        row = rng.choice(['(%d)', '(%d, \'x\')', '(f(%d))', '(a[%d])'])
        return 'wide', 'insert into t values ' + ', '.join(
            row % i for i in range(n)) + ';'
    return 'wide', 'select ' + ' '.join(
        'case when a then %d end' % i for i in range(n // 2)) + ' from t'


def shard(ctx):
    rng = ctx.rng
    gen = grammar.Gen(rng)
    pgen = procgrammar.ProcGen(rng)
    single = grammar.Layout(rng, ws='single', comments=0.0)
    while ctx.running():
        x = rng.random()
        if x < 0.004:
            kind, text = deep_or_wide(rng)
        elif x < 0.12:
            kind, text = 'bracketcross', hostile.bracket_cross(rng)
        elif x < 0.45:
            kind, text = 'blocksoup', hostile.block_soup(rng)
        elif x < 0.6:
            kind, text = 'tokensoup', hostile.token_soup(rng, joiner=' ')
        elif x < 0.75:
            kind, text = 'nearvalid', c07.near_valid(rng, gen)
        elif x < 0.9:
            sc = grammar.make_script(rng, layout=grammar.Layout(
                rng, ws='single', comments=rng.choice([0, 0.05])),
                nstmts=1)
            kind, text = 'grammar', sc.text
        else:
            kind, text = 'procedural', pgen.script(clean=False)[0]
        check_text(ctx, kind, text)


def replay(ctx, kind, case):
    check_text(ctx, case.get('source', 'replay'), case['text'])


def witness(w):
    from vlib import common, findings
    rec = common.Recorder(ID)
    ctx = common.Ctx(ID, 'quick', 0, 0, 1, 60, rec)
    ctx.findings = findings.Findings('__none__')
    check_text(ctx, 'witness', w['input'])
    if rec.violations:
        return True, rec.violations[0]['detail']
    return False, ''
