"""C13 — clause nodes cover exactly the clause as written."""
import sqlparse
from sqlparse import sql

from vlib import grammar, treeloc

ID = 'C13'
LEVEL = 'exploration'
DECIDING = ['where_extent', 'identifier_list', 'function_parameters',
            'case_parts', 'comparison_operands', 'typed_literal']
RULE = ('scripts of the verification grammar (every whitespace spelling, '
        'keyword casing, nesting in subqueries/CTEs, no comments). Oracles '
        'from the derivation, nodes located by character span: Where spans '
        'WHERE..before the next GROUP BY/ORDER BY/LIMIT/UNION/EXCEPT/HAVING '
        'at its level, else to the end of the enclosing parenthesis or '
        'statement; every select/FROM comma list is one IdentifierList whose '
        'get_identifiers() are the written items; every call is a Function '
        'whose get_parameters() are the written arguments; get_cases() '
        'yields the written WHEN/THEN/ELSE parts; every comparison with '
        'operands of the declared classes is a Comparison with those '
        'left/right; every typed literal is one TypedLiteral. '
        'distinct_nontrivial = distinct (clause kind, operand/item kinds, '
        'follower) tuples')
ASSUMPTIONS = [
    'texts are compared with whitespace removed (the nodes may carry '
    'trailing whitespace)',
    'labelled known-finding classes: D15 (a single keyword-literal, '
    'negated, AT TIME ZONE or dollar-operation argument is missing from '
    'get_parameters()), D22 (lists with typed-literal / unaliased '
    'parenthesis / dollar items are not one IdentifierList, which also '
    'truncates get_parameters() of such calls); bare aliases are only written after names, calls '
    'and parentheses (D16: bare alias after a string literal)',
]


def plan(tier):
    return {'shards': 16, 'budget_s': 30 if tier == 'quick' else 450}


def squeeze(s):
    return ''.join(s.split())


CLOSERS = {'GROUP BY', 'ORDER BY', 'LIMIT', 'UNION', 'UNION ALL', 'EXCEPT',
           'HAVING', 'RETURNING', 'INTO'}


def check_script(ctx, sc):
    rec = ctx.rec
    rec.case()
    text = sc.text
    try:
        stmts = sqlparse.parse(text)
    except Exception:
        rec.count('exception_(C07)')
        return
    if len(stmts) != len(sc.stmts):
        rec.count('statement_count_mismatch_(C05)')
        return
    loc = treeloc.Located(stmts)
    by_start = {}
    for n in loc.nodes:
        if n.is_group:
            by_start.setdefault(loc.span[id(n)][0], []).append(n)

    def sl(si, f, l):
        sp = sc.tok_spans[si]
        return sp[f][0], sp[l][1]

    for si, st in enumerate(sc.stmts):
        sp = sc.tok_spans[si]
        toks = st.toks
        base = {'text': text}
        # ---- WHERE ------------------------------------------------------
        for w, l in st.wheres:
            rec.monitor('where_extent')
            a = sp[w][0]
            cond_end = sp[l][1]
            nodes = [n for n in by_start.get(a, [])
                     if isinstance(n, sql.Where)]
            follower = toks[l + 1] if l + 1 < len(toks) else None
            fkind = 'end' if follower is None else (
                follower.text.upper() if follower.kind == 'kw'
                else follower.text)
            case = dict(base, clause=text[a:cond_end], follower=fkind)
            if len(nodes) != 1:
                rec.violation('where-missing', case, '%d Where nodes start '
                              'at the WHERE of %r' % (len(nodes),
                                                      text[a:cond_end][:60]),
                              key=('wm', fkind))
                continue
            b = loc.span[id(nodes[0])][1]
            got = squeeze(text[a:b])
            want = squeeze(text[a:cond_end])
            ok = got == want
            if not ok and follower is None:
                # end of statement: the Where runs to the statement's end
                ok = got == want + ';' and b >= loc.span[id(stmts[si])][1] \
                    - len(text[cond_end:loc.span[id(stmts[si])][1]])
            if not ok:
                rec.violation('where-extent', case,
                              'Where node is %r, written clause is %r '
                              '(follower %s)' % (text[a:b][-60:],
                                                 text[a:cond_end][-60:],
                                                 fkind),
                              key=('we', fkind))
            rec.nontrivial(('where', fkind))
        # ---- comma lists ------------------------------------------------
        for ctx_name, items in st.lists:
            rec.monitor('identifier_list')
            a = sp[items[0][0]][0]
            b = sp[items[-1][1]][1]
            want = [squeeze(text[sp[f][0]:sp[l][1]]) for f, l, k in items]
            ikinds = [k for f, l, k in items]
            d22 = any(k in ('typed', 'paren', 'subq', 'dollar',
                            'operation-x', 'neg', 'tz') for k in ikinds)
            nodes = [n for n in by_start.get(a, [])
                     if isinstance(n, sql.IdentifierList)]
            case = dict(base, clause=text[a:b], list=ctx_name)
            good = False
            got = None
            for n in nodes:
                try:
                    got = [squeeze(str(x)) for x in n.get_identifiers()]
                except Exception as exc:
                    got = 'EXC %r' % (exc,)
                if got == want and squeeze(text[a:loc.span[id(n)][1]]) == \
                        squeeze(text[a:b]):
                    good = True
            if not good:
                rec.violation('identifier-list', case,
                              '%s list %r: get_identifiers() gives %r, '
                              'written items %r' % (ctx_name, text[a:b][:80],
                                                    got, want),
                              key=('il', ctx_name, len(want),
                                   got is None, tuple(sorted(set(ikinds)))),
                              finding=ctx.findings.attr('D22') if d22
                              else None)
            rec.nontrivial(('list', ctx_name, tuple(ikinds)))
        # ---- calls --------------------------------------------------------
        for f, c, args in st.calls:
            a, b = sp[f][0], sp[c][1]
            want = [squeeze(text[sp[x][0]:sp[y][1]]) for x, y, k in args]
            kinds = [k for x, y, k in args]
            d15 = len(kinds) == 1 and kinds[0] in ('operation-x', 'neg',
                                                   'null', 'bool', 'tz')
            d22a = any(k in ('typed', 'dollar', 'operation-x', 'neg', 'tz')
                       for k in kinds) or (
                len(kinds) > 1 and any(k in ('paren', 'subq')
                                       for k in kinds))
            rec.monitor('function_parameters')
            nodes = [n for n in by_start.get(a, [])
                     if isinstance(n, sql.Function)
                     and loc.span[id(n)] == (a, b)]
            case = dict(base, clause=text[a:b], arg_kinds=kinds)
            if not nodes:
                rec.violation('function-missing', case, 'no Function node '
                              'spans the call %r' % text[a:b][:60],
                              key=('fm',))
                continue
            try:
                got = [squeeze(str(x)) for x in nodes[0].get_parameters()]
            except Exception as exc:
                got = 'EXC %r' % (exc,)
            if got != want:
                rec.violation('function-parameters', case,
                              'call %r: get_parameters() gives %r, written '
                              'arguments %r' % (text[a:b][:80], got, want),
                              key=('fp', tuple(kinds)),
                              finding=ctx.findings.attr('D15') if d15
                              else ctx.findings.attr('D22') if d22a
                              else None)
            rec.nontrivial(('call', tuple(kinds)))
        # ---- CASE ---------------------------------------------------------
        for f, l, parts in st.cases:
            rec.monitor('case_parts')
            a, b = sp[f][0], sp[l][1]
            nodes = [n for n in by_start.get(a, [])
                     if isinstance(n, sql.Case) and loc.span[id(n)] == (a, b)]
            case = dict(base, clause=text[a:b])
            if not nodes:
                rec.violation('case-missing', case, 'no Case node spans %r'
                              % text[a:b][:60], key=('cm',))
                continue
            want = []
            for p in parts:
                if p[0] == 'operand':
                    want.append((squeeze(text[sp[p[1]][0]:sp[p[2]][1]]), ''))
                elif p[0] == 'when':
                    cond = squeeze(text[sp[p[1] - 1][0]:sp[p[2]][1]])
                    val = squeeze(text[sp[p[3] - 1][0]:sp[p[4]][1]])
                    want.append((cond, val))
                else:
                    want.append((None, squeeze(
                        text[sp[p[1] - 1][0]:sp[p[2]][1]])))
            try:
                got = [(None if c is None else squeeze(
                    ''.join(str(x) for x in c)),
                    squeeze(''.join(str(x) for x in v)))
                    for c, v in nodes[0].get_cases(skip_ws=True)]
            except Exception as exc:
                got = 'EXC %r' % (exc,)
            if got != want:
                rec.violation('case-parts', case,
                              'CASE %r: get_cases() gives %r, written parts '
                              '%r' % (text[a:b][:80], got, want),
                              key=('cp', len(want)))
            rec.nontrivial(('case', tuple(p[0] for p in parts)))
        # ---- comparisons --------------------------------------------------
        for left, op, right in st.comps:
            ok_kinds = ('col', 'num', 'str', 'call', 'paren', 'subq',
                        'operation', 'typed', 'cast', 'null', 'placeholder')
            # (an operand followed by AT TIME ZONE - kinds 'tz', 'typed-tz' -
            # is not judged here: whether the cast belongs to the operand is
            # not fixed by the property; the typed-literal oracle below still
            # requires the TypedLiteral node)
            if left[2] not in ok_kinds or right[2] not in ok_kinds:
                rec.count('comparisons_outside_declared_operand_classes')
                continue
            rec.monitor('comparison_operands')
            a, b = sp[left[0]][0], sp[right[1]][1]
            nodes = [n for n in by_start.get(a, [])
                     if isinstance(n, sql.Comparison)
                     and loc.span[id(n)] == (a, b)]
            case = dict(base, clause=text[a:b], kinds=[left[2], right[2]])
            if not nodes:
                rec.violation('comparison-missing', case,
                              'no Comparison node spans %r (operand kinds '
                              '%s, %s)' % (text[a:b][:70], left[2],
                                           right[2]),
                              key=('km', left[2], right[2]))
                continue
            n = nodes[0]
            wl = squeeze(text[sp[left[0]][0]:sp[left[1]][1]])
            wr = squeeze(text[sp[right[0]][0]:sp[right[1]][1]])
            try:
                gl, gr = squeeze(str(n.left)), squeeze(str(n.right))
            except Exception as exc:
                gl = gr = 'EXC %r' % (exc,)
            if (gl, gr) != (wl, wr):
                rec.violation('comparison-operands', case,
                              'comparison %r: left/right = %r / %r, written '
                              '%r / %r' % (text[a:b][:70], gl, gr, wl, wr),
                              key=('ko', left[2], right[2]))
            rec.nontrivial(('cmp', left[2], toks[op].text.upper(), right[2]))
        # ---- typed literals -----------------------------------------------
        for f, l in st.typed:
            rec.monitor('typed_literal')
            a, b = sp[f][0], sp[l][1]
            nodes = [n for n in by_start.get(a, [])
                     if isinstance(n, sql.TypedLiteral)
                     and loc.span[id(n)] == (a, b)]
            if not nodes:
                rec.violation('typed-literal', dict(base, clause=text[a:b]),
                              'typed literal %r is not one TypedLiteral node'
                              % text[a:b], key=('tl', toks[f].text.upper()))
            rec.nontrivial(('typed', toks[f].text.upper(), l - f))
    if rec.evaluations % 499 == 1:
        rec.sample({'text': text[:240]})


def shard(ctx):
    rng = ctx.rng
    cfg = grammar.Config()
    while ctx.running():
        layout = grammar.Layout(rng, ws=rng.choice(['single', 'mixed']),
                                comments=0,
                                kwcase=rng.choice(['upper', 'lower',
                                                   'mixed']),
                                inner=rng.choice(['single', 'mixed']))
        sc = grammar.make_script(rng, cfg, layout=layout,
                                 nstmts=rng.choice([1, 1, 2]),
                                 sep_comments=False)
        check_script(ctx, sc)


def replay(ctx, kind, case):
    ctx.rec.note('C13 cases are replayed by re-running with the same '
                 'VERIF_SEED; the recorded case holds the script text and '
                 'the clause: %r' % case.get('clause', '')[:80])


def witness(w):
    st = sqlparse.parse(w['input'])[0]
    for node in st.flatten():
        pass
    found = []
    stack = [st]
    while stack:
        n = stack.pop()
        if n.is_group:
            stack.extend(n.tokens)
            if 'expected_typed' in w:
                if isinstance(n, sql.TypedLiteral):
                    found.append(str(n))
            elif 'expected_list' in w:
                if isinstance(n, sql.IdentifierList):
                    found.append([str(x) for x in n.get_identifiers()])
            elif isinstance(n, sql.Function):
                found.append([str(x) for x in n.get_parameters()])
    ok = (w.get('expected_typed') or w.get('expected_list')
          or w['expected_parameters']) in found
    return (not ok), 'accessor gives %r' % (found,)
