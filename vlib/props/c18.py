"""C18 — Statement.get_type() names the statement's leading DML/DDL
keyword."""
import sqlparse
from sqlparse import keywords, tokens as T

from vlib import grammar
from vlib.props import c14

ID = 'C18'
LEVEL = 'exploration'
DECIDING = ['get_type_grammar', 'get_type_keyword_sweep']
RULE = ('(a) every statement kind of the verification grammar (SELECT, '
        'INSERT, UPDATE, DELETE, CREATE TABLE/VIEW/INDEX, CREATE OR REPLACE, '
        'DROP, ALTER, WITH [RECURSIVE] ... SELECT/INSERT/UPDATE/DELETE with '
        'plain / quoted CTE names and optional column lists) x '
        'prefix of whitespace and comments x keyword casing x inner '
        'whitespace of multi-word keywords x layout; (b) every word the '
        'keyword tables type DML or DDL, plus other keywords, names, quoted '
        'names and near-keywords (selectx, "select") x casing x prefix x '
        'continuation. Oracle from the derivation: upper-cased leading '
        'DML/DDL keyword (single blanks), DML after the CTE list for WITH, '
        'else UNKNOWN. distinct_nontrivial = distinct (leading word, casing '
        'class, prefix class, continuation) combinations')
ASSUMPTIONS = [
    'which words are DML/DDL: a reference list fixed in the check (SELECT, '
    'INSERT, DELETE, UPDATE, UPSERT, REPLACE, MERGE, COMMIT, START, ROLLBACK, '
    'DROP, CREATE, ALTER, TRUNCATE) plus whatever else the keyword tables '
    'type DML/DDL at run time',
    'labelled class D18: a leading keyword written directly before ( or '
    'before optional whitespace and a dot is lexed as a name by design of '
    'the lexer, get_type() answers UNKNOWN',
]


def plan(tier):
    return {'shards': 16, 'budget_s': 25 if tier == 'quick' else 360}


PREFIXES = ['', ' ', '\n', '  \n\t', '-- c\n', '/* c */', '/* c */ ',
            '-- select\n', ' /* insert */\n', '--\n\n', '/*+ hint */ ',
            '-- a\n-- b\n', '/* a *//* b */', '\r\n', '# c\n']
CONTS = [' 1', ' * from t', '\n x', ' a.b', ';', '', ' /*c*/ x', ' x;',
         '\t1', ' "q"', " 'str'", ' x (1)', '\n-- c\nx', ' t set a = 1',
         ' 1 union select 2', ' from t where a = 1',
         # an identifier (list) followed by a DML keyword: only a WITH
         # statement is typed by the keyword behind its definitions
         ' x select 1', ' t insert into u values (1)', ' a, b select 2',
         ' x as (select 1) select 2', ' t update u set a = 1',
         ' a delete from t', '@@version', '@v := 1', ' @x']
D18_CONTS = ['(1)', ' .5', '.5', '(select 1)', ' . x', '.x']


# Words that are DML/DDL statement keywords in the keyword tables of the
# tree this check was written against. They are part of the oracle (a table
# change that re-types one of them changes get_type() for users); words added
# to the tables later are picked up from the tables at run time.
REFERENCE_DML = ['SELECT', 'INSERT', 'DELETE', 'UPDATE', 'UPSERT', 'REPLACE',
                 'MERGE', 'COMMIT', 'START', 'ROLLBACK']
REFERENCE_DDL = ['DROP', 'CREATE', 'ALTER', 'TRUNCATE']


def dml_ddl_words():
    out = {}
    for name, d in c14.dictionaries():
        for w, tt in d.items():
            if w.upper() in out or not c14.WORD_RE.match(w):
                continue
            out[w.upper()] = tt
    words = {w: tt for w, tt in out.items()}
    return words


def expected_for_word(word, tt):
    if tt in (T.Keyword.DML, T.Keyword.DDL):
        return ' '.join(word.upper().split())
    return 'UNKNOWN'


def recase(rng, w):
    x = rng.random()
    if x < 0.3:
        return w.upper(), 'upper'
    if x < 0.6:
        return w.lower(), 'lower'
    if x < 0.75:
        return w.capitalize(), 'cap'
    return ''.join(c.upper() if rng.random() < 0.5 else c.lower()
                   for c in w), 'mixed'


def judge(ctx, monitor, text, want, case, label=None):
    rec = ctx.rec
    rec.case()
    try:
        stmts = sqlparse.parse(text)
    except Exception:
        rec.count('exception_(C07)')
        return
    rec.monitor(monitor)
    if not stmts:
        got = None
    else:
        try:
            got = stmts[0].get_type()
        except Exception as exc:
            got = 'EXC %r' % (exc,)
    if got != want:
        fid = ctx.findings.attr('D18') if label == 'D18' else None
        rec.violation('get_type', dict(case, text=text, expected=want),
                      'get_type() of %r is %r, expected %r' % (
                          text[:70], got, want),
                      key=(want, got, label), finding=fid)


def sweep_case(ctx, words, rng):
    x = rng.random()
    label = None
    if x < 0.55:
        w = rng.choice(words['dmlddl'])
        want = w
        spelled, cc = recase(rng, w)
    elif x < 0.65:
        w = 'CREATE OR REPLACE'
        want = w
        spelled, cc = recase(rng, w)
        spelled = rng.choice([' ', '  ', '\n', '\t ', '\r\n']).join(
            spelled.split())
    elif x < 0.8:
        w = rng.choice(words['other'])
        want = 'UNKNOWN'
        spelled, cc = recase(rng, w)
    else:
        w = rng.choice(['selectx', '"select"', '`insert`', 'xselect', 'foo',
                        '_update', "'delete'", '1', '(select 1)', '$$x$$',
                        'select1', 'create_x'])
        want = 'UNKNOWN'
        spelled, cc = w, 'asis'
    prefix = rng.choice(PREFIXES)
    if rng.random() < 0.08 and want != 'UNKNOWN':
        cont = rng.choice(D18_CONTS)
        label = 'D18'
    else:
        cont = rng.choice(CONTS)
    text = prefix + spelled + cont
    # a keyword directly followed by '(' / '.' forms: only via D18 class
    judge(ctx, 'get_type_keyword_sweep', text, want,
          {'word': w, 'prefix': prefix, 'cont': cont}, label)
    ctx.rec.nontrivial((w, cc, prefix, cont))
    ctx.rec.hist('expected', want if want == 'UNKNOWN' else 'DML/DDL')


def script_case(ctx, rng, gen):
    """2-4 statements in one input: every statement's type is judged (state
    must not leak from one statement into the typing of the next)."""
    rec = ctx.rec
    n = rng.choice([2, 2, 3, 4])
    stmts = [gen.statement() for _ in range(n)]
    layout = grammar.Layout(rng, ws=rng.choice(['single', 'mixed']),
                            comments=rng.choice([0, 0.1]),
                            kwcase=rng.choice(['upper', 'lower', 'mixed']),
                            inner=rng.choice(['single', 'mixed']))
    sc = grammar.Script(stmts, layout, rng, final_semicolon=True)
    rec.case()
    try:
        parsed = sqlparse.parse(sc.text)
    except Exception:
        rec.count('exception_(C07)')
        return
    if len(parsed) != n:
        rec.count('statement_count_mismatch_(C05)')
        return
    rec.monitor('get_type_grammar')
    for i, (st, p) in enumerate(zip(stmts, parsed)):
        want = ' '.join(st.stype.upper().split())
        try:
            got = p.get_type()
        except Exception as exc:
            got = 'EXC %r' % (exc,)
        if got != want:
            rec.violation('get_type', {'text': sc.text, 'statement': i,
                                       'expected': want},
                          'statement %d of a %d-statement script (%r...) has '
                          'get_type() %r, expected %r' % (
                              i, n, str(p).strip()[:50], got, want),
                          key=('multi', want, got))
            break
    rec.nontrivial(('script', tuple(s.kind for s in stmts)))


def grammar_case(ctx, rng, gen):
    st = gen.statement()
    layout = grammar.Layout(
        rng, ws=rng.choice(['single', 'mixed']),
        comments=rng.choice([0, 0, 0.1, 0.25]),
        kwcase=rng.choice(['upper', 'lower', 'mixed']),
        inner=rng.choice(['single', 'mixed']))
    out = []
    grammar.render_statement(st, layout, out)
    prefix = rng.choice(PREFIXES)
    text = prefix + ''.join(out) + rng.choice(['', ';', ' ;\n'])
    want = ' '.join(st.stype.upper().split())
    judge(ctx, 'get_type_grammar', text, want, {'kind': st.kind,
                                                'prefix': prefix})
    ctx.rec.nontrivial((st.kind, st.stype, prefix, layout.kwcase,
                        layout.inner))
    ctx.rec.hist('grammar_kind', st.kind + ':' + st.stype)
    if ctx.rec.evaluations % 499 == 1:
        ctx.rec.sample({'text': text[:200], 'expected': want})


CTE_MAINS = [('select * from c0', 'SELECT'), ('SELECT 1', 'SELECT'),
             ('insert into t select * from c0', 'INSERT'),
             ('update t set a = 1 where b in (select x from c0)', 'UPDATE'),
             ('delete from t where a in (select x from c0)', 'DELETE'),
             ('insert into t (a) values (1)', 'INSERT')]


def cte_shape_case(ctx, rng):
    """Hand-built WITH statements: 1-5 definitions, comments behind (and
    in front of) the separating commas, now and then one body that nests
    parentheses 3-150 deep; the main statement decides the type."""
    n = rng.choice([1, 2, 3, 3, 4, 5])
    deep = rng.randrange(n) if rng.random() < 0.4 else -1
    depth = rng.choice([3, 40, 63, 64, 70, 100, 150])
    commented = rng.random() < 0.7
    text = rng.choice(['with ', 'WITH ', 'with recursive ', 'With\n'])
    for i in range(n):
        if i:
            if commented and rng.random() < 0.3:
                text += rng.choice([' /* c */', ' /* , */ '])
            text += ','
            text += rng.choice(['-- x\n', ' -- with, select\n  ', '/* c */',
                                ' /* insert */ ', '--\n']) \
                if commented and rng.random() < 0.75 \
                else rng.choice([' ', '\n', '\n  '])
        body = 'select %d as x' % i
        if i == deep:
            body = 'select %s1%s as x' % ('(' * depth, ')' * depth)
        text += 'c%d%s (%s)' % (i, rng.choice([' as', ' AS', ' As']), body)
    main, want = rng.choice(CTE_MAINS)
    text += rng.choice([' ', '\n', '\n\n', ' /* main */ ']) + main \
        + rng.choice(['', ';'])
    judge(ctx, 'get_type_grammar', text, want,
          {'kind': 'cte-shape', 'n': n, 'depth': depth if deep >= 0 else 0})
    ctx.rec.nontrivial(('cte-shape', n, commented, deep >= 0 and depth, want))
    ctx.rec.hist('grammar_kind', 'cte-shape:' + want)


def shard(ctx):
    rng = ctx.rng
    table = dml_ddl_words()
    words = {
        'dmlddl': sorted(set(w for w, tt in table.items()
                             if tt in (T.Keyword.DML, T.Keyword.DDL))
                         | set(REFERENCE_DML) | set(REFERENCE_DDL)),
        'other': sorted(w for w, tt in table.items()
                        if tt not in (T.Keyword.DML, T.Keyword.DDL,
                                      T.Keyword.CTE)
                        and w not in ('WITH',)
                        and w not in REFERENCE_DML
                        and w not in REFERENCE_DDL)[::7],
    }
    if ctx.shard == 0:
        ctx.rec.note('DML/DDL words: %r' % words['dmlddl'])
    gen = grammar.Gen(rng)
    k = 0
    while ctx.running():
        k += 1
        if k % 25 == 7:
            cte_shape_case(ctx, rng)
        elif k % 9 == 0:
            script_case(ctx, rng, gen)
        elif k % 3 == 0:
            grammar_case(ctx, rng, gen)
        else:
            sweep_case(ctx, words, rng)


def replay(ctx, kind, case):
    if 'statement' in case:
        p = sqlparse.parse(case['text'])
        i = case['statement']
        got = p[i].get_type() if i < len(p) else None
        if got != case['expected']:
            ctx.rec.violation(kind, case, 'replay: statement %d has type %r, '
                              'expected %r' % (i, got, case['expected']))
        return
    judge(ctx, 'get_type_keyword_sweep', case['text'], case['expected'],
          case)


def witness(w):
    got = sqlparse.parse(w['input'])[0].get_type()
    return got != w['expected'], 'get_type() = %r, expected %r' % (
        got, w['expected'])
