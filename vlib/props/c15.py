"""C15 — pathological nesting is reported as SQLParseError, never a
crash."""
import json
import os
import subprocess
import sys

from vlib import common

ID = 'C15'
LEVEL = 'exploration'
DECIDING = ['outcome_class', 'post_state']
TECHNIQUE = ('runtime monitoring: outcome-class monitor on isolated '
             'subprocess cells (faulthandler, RLIMIT_CPU, wall watchdog) + '
             'post-state probe')
RULE = ('grid: construct in {open parens, parens, brackets, nested CASE, '
        'nested calls, nested subqueries, a+a+.., a=a=.., a::b::.., nested '
        'BEGIN, nested IF, (a,(a,.. lists, open CASE, a.a.a.., and three of '
        'them followed by further statements in the same input} x depth in '
        '{20,60,150,400} (thorough: + 1000, 2000) x sys.setrecursionlimit in '
        '{70,200,400,1000,5000} x entry point in {parse, parsestream, split, '
        'format and 5 option sets}, + depths at 55/75/90 % of each limit, + '
        'cells where the library is imported under recursion limit 100; one '
        'subprocess per cell. Oracle: outcome is ok or SQLParseError; exit '
        'status 0; on ok the round-trip / tree oracles hold (iterative '
        'walkers) and str() of every returned statement works under the '
        'limit the call succeeded with; afterwards, same process, default '
        'limit, format/parse/split of ordinary input (incl. a 15-level '
        'query) give the reference result. '
        'distinct_nontrivial = distinct (construct, depth, limit, entry, '
        'outcome) cells with depth >= 60')
ASSUMPTIONS = [
    'depth is capped at 2000 because grouping cost is cubic in depth; cells '
    'that hit the wall-clock watchdog are inconclusive and counted, never '
    'violations; a cell that uses up its CPU-time limit (RLIMIT_CPU, 60 s '
    'quick / 400 s thorough, load-independent) neither returned nor raised '
    'and is a violation (cpu-limit)',
]

CONSTRUCTS = ['open_parens', 'parens', 'brackets', 'case', 'calls',
              'subqueries', 'operators', 'comparisons', 'casts', 'begin',
              'if', 'paren_lists', 'open_case', 'dots', 'parens+multi',
              'calls+multi', 'case+multi']
ENTRIES = ['parse', 'parsestream', 'split', 'format', 'format_reindent',
           'format_aligned', 'format_strip_ops', 'format_python',
           'format_case']
LIMITS = [70, 200, 400, 1000, 5000]


def plan(tier):
    return {'shards': 16, 'budget_s': 40 if tier == 'quick' else 540,
            'hard_timeout_s': 400 if tier == 'quick' else 3000}


def grid(tier):
    depths = [20, 60, 150, 400] if tier == 'quick' \
        else [20, 60, 150, 400, 1000, 2000]
    cells = []
    for c in CONSTRUCTS:
        for d in depths:
            for lim in LIMITS:
                for e in ENTRIES:
                    cells.append((c, d, lim, e))
    # depths just below a recursion limit: the call may succeed where a
    # later walk over the result needs more stack than the call did
    for c in CONSTRUCTS:
        for lim in ([70, 200, 400] if tier == 'quick'
                    else [70, 200, 400, 1000]):
            for frac in (0.55, 0.75, 0.9):
                for e in ('parse', 'parsestream', 'format_reindent'):
                    cells.append((c, int(lim * frac), lim, e))
    # the library imported under a low recursion limit (restored before
    # the first call)
    for c in ('parens', 'case', 'calls+multi'):
        for e in ENTRIES:
            cells.append((c, 20, 1000, e, 100))
    return cells


def cost(cell):
    return cell[1]


def run_cell(cell, timeout):
    c, d, lim, e = cell[:4]
    arg = json.dumps({'construct': c, 'depth': d, 'limit': lim, 'entry': e,
                      'cpu': int(timeout),
                      'import_limit': cell[4] if len(cell) > 4 else None})
    env = dict(os.environ)
    try:
        p = subprocess.run([sys.executable, '-B', '-m', 'vlib.c15_cell', arg],
                           cwd=common.VERIF, env=env, capture_output=True,
                           text=True, timeout=timeout + 20)
    except subprocess.TimeoutExpired:
        return 'watchdog', None, ''
    out = p.stdout.strip().splitlines()
    res = None
    if out:
        try:
            res = json.loads(out[-1])
        except ValueError:
            res = None
    return p.returncode, res, p.stderr[-600:]


def judge(rec, cell, rc, res, err):
    c, d, lim, e = cell[:4]
    case = {'construct': c, 'depth': d, 'limit': lim, 'entry': e}
    if len(cell) > 4:
        case['import_limit'] = cell[4]
        rec.count('cells_imported_under_low_recursion_limit')
    rec.case()
    if rc == -24:
        # SIGXCPU: the cell used up its CPU-time limit (60 s quick, 400 s
        # thorough; CPU time, so independent of machine load; the slowest
        # cell of the unchanged tree needs a few seconds). The call neither
        # returned nor raised: not the outcome the property allows.
        rec.monitor('outcome_class')
        rec.violation('cpu-limit', case,
                      'the call used up the cell\'s CPU-time limit without '
                      'returning or raising (depth %d, entry %s)' % (d, e),
                      key=(c, e, 'cpu'))
        return
    if rc == 'watchdog' or rc == -9:          # wall clock / killed
        rec.count('cells_watchdog_or_cpu_limit_(inconclusive)')
        rec.hist('inconclusive_cells', '%s/%d' % (c, d))
        return
    if res is not None and 'harness_error' in res:
        rec.count('cells_harness_error')
        rec.note('cell harness error: ' + res['harness_error'][:200])
        return
    rec.monitor('outcome_class')
    if rc != 0 or res is None:
        rec.violation('process-died', case,
                      'cell process exit status %r, stderr tail: %s'
                      % (rc, err[-300:]), key=(c, e, 'died'))
        return
    out = res['outcome']
    rec.hist('outcome', out)
    rec.hist('outcome_by_construct', '%s:%s' % (c, out))
    if out == 'sqlparseerror':
        if res.get('cause_recursion'):
            rec.count('sqlparseerror_with_RecursionError_cause')
    elif out != 'ok':
        rec.violation('outcome', case, 'outcome %s' % out, key=(c, e, out))
    elif res.get('check'):
        rec.violation('result-broken', case, res['check'],
                      key=(c, e, res['check'][:20]))
    rec.monitor('post_state')
    if res.get('after'):
        rec.violation('post-state', case, 'after the call: %s' % res['after'],
                      key=(c, e, 'after'))
    if d >= 60:
        rec.nontrivial((c, d, lim, e, out))
    if rec.evaluations % 37 == 1:
        rec.sample(dict(case, outcome=out,
                        recursion_cause=res.get('cause_recursion')))


def shard(ctx):
    rec, rng = ctx.rec, ctx.rng
    cells = grid(ctx.tier)
    rng2 = ctx.sub_rng('grid')
    # same permutation in every shard: derive from seed only
    import random
    perm = random.Random(common.derive_seed(ctx.seed, 'C15grid'))
    perm.shuffle(cells)
    mine = cells[ctx.shard::ctx.nshards]
    # cheap cells first so that a quick run covers many
    if ctx.tier == 'quick':
        mine = [c for c in mine if c[1] <= 150] + \
               [c for c in mine if c[1] > 150]
    timeout = 60 if ctx.tier == 'quick' else 400
    done = 0
    for cell in mine:
        if not ctx.running():
            break
        if ctx.tier == 'quick' and cell[1] >= 400 and ctx.time_left() < 25:
            continue
        rc, res, err = run_cell(cell, timeout)
        judge(rec, cell, rc, res, err)
        done += 1
    rec.count('grid_cells_total', len(cells) if ctx.shard == 0 else 0)
    rec.count('grid_cells_run', done)


def replay(ctx, kind, case):
    cell = (case['construct'], case['depth'], case['limit'], case['entry'])
    if case.get('import_limit'):
        cell = cell + (case['import_limit'],)
    rc, res, err = run_cell(cell, 400)
    judge(ctx.rec, cell, rc, res, err)
