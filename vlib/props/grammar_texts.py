"""Grammar scripts as plain text for the text-level properties."""
from vlib import grammar


class Source:
    def __init__(self, rng, comments=0.08, **cfg):
        self.rng = rng
        self.cfg = grammar.Config(**cfg)
        self.comments = comments

    def script(self):
        rng = self.rng
        layout = grammar.Layout(
            rng, ws=rng.choice(['single', 'mixed']),
            comments=rng.choice([0.0, self.comments, self.comments * 2]),
            kwcase=rng.choice(['upper', 'lower', 'mixed']),
            inner=rng.choice(['single', 'single', 'mixed']),
            hints=rng.random() < 0.3)
        return grammar.make_script(rng, self.cfg, layout=layout)

    def text(self):
        return self.script().text
