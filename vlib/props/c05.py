"""C05 — statements end exactly at top-level semicolons; opaque regions
never split."""
import sqlparse

from vlib import grammar, hostile, oracles

ID = 'C05'
LEVEL = 'exploration'
DECIDING = ['statement_extents', 'region_replacement']
RULE = ('(a) scripts of k = 1..6 grammar statements (queries, DML, DDL, CTEs '
        'with nesting, CASE, all literal / identifier / comment forms) joined '
        'by ; with every separator mix (blanks, tabs, LF, CRLF, -- and /* */ '
        'comments): split() must give k pieces, piece i starting inside '
        'separator i-1 and ending inside separator i, and len(parse()) == k. '
        '(b) metamorphic: one opaque region of the script (string, "name", '
        '`name`, $tag$ body, /* */ or -- comment, parenthesis pair) gets a '
        'generated replacement body without its terminator; piece count and '
        'all piece boundaries outside the region must not move. '
        'distinct_nontrivial = distinct (k, statement kinds, feature set) of '
        'scripts with k >= 2 plus distinct (region kind, body) replacements '
        'whose body contains ;')
ASSUMPTIONS = [
    'the grammar never writes a keyword directly before ( or . (the lexer '
    'turns such words into names by design) and no GO batch separators',
    'parenthesis bodies are sequences of complete tokens; bare block keywords '
    '(BEGIN, END, DECLARE, IF, END IF, CASE) are used only in non-CREATE '
    'statements (inside CREATE they drive the procedural counter: C17)',
    'replacement bodies of quote-delimited regions never END in a backslash '
    '(for the lexer a backslash before a quote is an escape, so whether such '
    'a body "lacks the terminator" depends on what follows the region); '
    'backslashes elsewhere in the body - also before a line break - are used',
    'a block comment after the last ; is a statement of its own for a '
    'non-validating splitter, so the script tail is whitespace only',
]


def plan(tier):
    return {'shards': 16, 'budget_s': 30 if tier == 'quick' else 450}


def piece_positions(text, pieces):
    """[(start, end)] of the pieces, scanning left to right (None if the
    pieces do not partition the text)."""
    out = []
    j = 0
    for p in pieces:
        while j < len(text) and text[j].isspace():
            j += 1
        if not p or not text.startswith(p, j):
            return None
        out.append((j, j + len(p)))
        j += len(p)
    if text[j:].strip():
        return None
    return out


def check_extents(rec, sc, case):
    text = sc.text
    k = len(sc.stmts)
    rec.monitor('statement_extents')
    try:
        pieces = sqlparse.split(text)
        nparse = len(sqlparse.parse(text))
    except Exception as exc:
        rec.count('exception_(C07)')
        return None
    if len(pieces) != k or nparse != k:
        rec.violation('count', case, 'script of %d statements: split gives '
                      '%d pieces, parse %d statements; pieces start %r'
                      % (k, len(pieces), nparse,
                         [p[:25] for p in pieces[:6]]),
                      key=(len(pieces) > k))
        return None
    pos = piece_positions(text, pieces)
    if pos is None:
        rec.violation('partition', case, 'pieces do not partition the text',
                      key='p')
        return None
    for i, (a, b) in enumerate(pos):
        s0, s1 = sc.stmt_spans[i]
        lo = sc.stmt_spans[i - 1][1] if i else 0
        hi = sc.stmt_spans[i + 1][0] if i + 1 < k else len(text)
        if not (lo <= a <= s0) or not (s1 <= b <= hi):
            rec.violation('extent', case, 'piece %d covers [%d,%d), statement '
                          '%d is [%d,%d) with separators from %d to %d'
                          % (i, a, b, i, s0, s1, lo, hi), key='e')
            return None
    return pos


# ---- replacement bodies ----------------------------------------------------
def soup_body(rng, forbid, maxlen=30):
    if rng.random() < 0.01:
        # a body longer than typical look-ahead windows / buffers
        unit = soup_body(rng, forbid, 20) + ' ; '
        body = unit * (rng.choice([9000, 20000, 70000]) // max(1, len(unit)))
        for f in forbid:
            body = body.replace(f, '')
        return body
    n = rng.randint(0, maxlen)
    out = []
    for _ in range(n):
        x = rng.random()
        if x < 0.25:
            out.append(';')
        elif x < 0.6:
            out.append(rng.choice(hostile.SPECIAL_CHARS))
        elif x < 0.85:
            out.append(rng.choice(hostile.MULTI_ATOMS))
        else:
            out.append(chr(rng.randrange(32, 127)))
    body = ''.join(out)
    for f in forbid:
        body = body.replace(f, '')
    return body


def quoted_body(rng, quote):
    """Body of a quote-delimited region: no quote, and a backslash only
    where it cannot stand before the closing quote (never last)."""
    b = soup_body(rng, [quote])
    if rng.random() < 0.15 and len(b) < 1000:
        i = rng.randint(0, len(b))
        b = b[:i] + rng.choice(['\\\n', '\\;', '\\\\;', '\\\r\n', '\\ ',
                                '\\n;']) + b[i:]
    while b.endswith('\\'):
        b = b[:-1]
    return b


PAREN_ITEMS = ['a', 'b1', '1', '2.5', "'s'", "'x;y'", "';'", '"q;"', '`b;`',
               '/* ; */', '/* c */', ',', ',', '+', '=', '*', ';', ';', ';',
               'select', 'from', 'where', 'and', 'x', 'null', 'in', '$$;$$',
               '-- ;\n', 'f(1)', '(1;2)', '( ; )', '((a);)', '()',
               'case when a then 1 end', 'case when a then 1 else 2 end ;',
               'case x when 1 then (;) end']
BLOCK_WORDS = ['begin', 'end', 'declare', 'if', 'end if', 'BEGIN', 'END',
               'case', 'loop', 'end loop', 'for', 'while']


def paren_body(rng, blocks):
    n = rng.randint(0, 8)
    items = []
    for _ in range(n):
        if blocks and rng.random() < 0.3:
            items.append(rng.choice(BLOCK_WORDS))
        else:
            items.append(rng.choice(PAREN_ITEMS))
    return ' ' + ' '.join(items) + ' '


def replacement(rng, kind, old, is_create):
    """New text for a region (delimiters kept). Returns (text, label)."""
    if kind == 'str':
        return "'" + quoted_body(rng, "'") + "'", 'str'
    if kind == 'qname':
        b = quoted_body(rng, '"') or 'x'
        return '"' + b + '"', 'qname'
    if kind == 'bname':
        b = soup_body(rng, ['`']) or 'x'
        return '`' + b + '`', 'bname'
    if kind == 'dollar':
        tag = old[:old.index('$', 1) + 1]
        return tag + soup_body(rng, ['$']) + tag, 'dollar'
    if kind == 'comment_ml':
        hint = old.startswith('/*+')
        b = soup_body(rng, ['*/']).replace('*/', '')
        while '*/' in b:
            b = b.replace('*/', '')
        if b.endswith('*'):
            b += ' '
        if not hint and b.startswith('+'):
            b = ' ' + b
        return ('/*+' if hint else '/*') + b + '*/', 'comment_ml'
    if kind == 'comment_sl':
        opener = '# ' if old.startswith('# ') else '--'
        hint = old.startswith(opener + '+')
        end = '\r\n' if old.endswith('\r\n') else old[-1]
        b = soup_body(rng, ['\r', '\n'])
        if not hint and b.startswith('+'):
            b = ' ' + b
        return opener + ('+' if hint else '') + b + end, 'comment_sl'
    if kind == 'paren':
        blocks = (not is_create) and rng.random() < 0.25
        return '(' + paren_body(rng, blocks) + ')', \
            'paren+blocks' if blocks else 'paren'
    raise ValueError(kind)


def check_replacement(rec, rng, sc, base_pos, case):
    regs = sc.regions()
    if not regs:
        return
    text = sc.text
    kind, a, b = rng.choice(regs)
    # which statement holds the region (for the CREATE restriction)
    is_create = False
    for i, (s0, s1) in enumerate(sc.stmt_spans):
        if s0 <= a < s1:
            is_create = sc.stmts[i].kind.startswith('create')
    old = text[a:b]
    new, label = replacement(rng, kind, old, is_create)
    text2 = text[:a] + new + text[b:]
    delta = len(new) - len(old)
    rec.monitor('region_replacement')
    rcase = dict(case, region=[kind, a, b], new=new, text2=text2)
    try:
        pieces2 = sqlparse.split(text2)
    except Exception:
        rec.count('exception_(C07)')
        return
    pos2 = piece_positions(text2, pieces2)
    if pos2 is None:
        rec.violation('partition', rcase, 'pieces do not partition the text '
                      'after replacement', key='p2')
        return

    def norm(pos, shift, end_of_region):
        out = []
        for x, y in pos:
            q = []
            for v in (x, y):
                if v <= a:
                    q.append(v)
                elif v >= end_of_region:
                    q.append(v - shift)
                else:
                    q.append('in-region')
            out.append(tuple(q))
        return out
    n1 = norm(base_pos, 0, b)
    n2 = norm(pos2, delta, b + delta)
    if n1 != n2:
        rec.violation('region-' + label, rcase,
                      'replacing the %s region %r by %r changed the pieces: '
                      '%d -> %d pieces, boundaries %r -> %r'
                      % (kind, old[:40], new[:60], len(n1), len(n2),
                         n1[:5], n2[:5]), key=label)
    rec.hist('region_kind', label)
    if ';' in new:
        rec.nontrivial(('repl', label, new[:24]))
        rec.count('replacements_with_semicolon')


def one_case(ctx, rng):
    rec = ctx.rec
    rec.case()
    layout = grammar.Layout(
        rng, ws=rng.choice(['single', 'mixed', 'mixed']),
        comments=rng.choice([0.0, 0.05, 0.15]),
        kwcase=rng.choice(['upper', 'lower', 'mixed']),
        inner=rng.choice(['single', 'mixed']),
        hints=rng.random() < 0.3)
    k = rng.choice([1, 2, 2, 3, 3, 4, 6])
    # now and then with PostgreSQL's '#' operator directly in front of a
    # line break (a '#' that must not open a comment; closes C05-m12)
    cfg = grammar.Config(hash_operator=rng.random() < 0.3)
    if rng.random() < 0.12:
        # scripts rich in statements that touch the splitter's block state:
        # transaction control, DDL with IF [NOT] EXISTS, CREATE ...
        gen = grammar.Gen(rng, cfg)
        k = rng.choice([3, 4, 5, 6])
        stmts = [gen.statement(rng.choice(
            ['transaction', 'transaction', 'create_table', 'create_table',
             'drop', 'create_index', 'create_view', 'create_table_as',
             'select', 'insert', 'update'])) for _ in range(k)]
        sc = grammar.Script(stmts, layout, rng)
    else:
        sc = grammar.make_script(rng, cfg, nstmts=k, layout=layout)
    case = {'text': sc.text, 'k': k,
            'stmt_spans': sc.stmt_spans}
    pos = check_extents(rec, sc, case)
    if k >= 2:
        rec.nontrivial((k, tuple(s.kind for s in sc.stmts),
                        tuple(sorted(sc.features()))))
    rec.hist('k', k)
    if pos is not None:
        for _ in range(2):
            check_replacement(rec, rng, sc, pos, case)
    if rec.evaluations % 499 == 1:
        rec.sample({'k': k, 'text': sc.text[:300]})


def padded_case(ctx, rng):
    """A statement whose opaque regions contain ';' is placed so that it
    straddles a typical buffer size; the statements before it are simple
    padding. split() must return padding + 2 statements."""
    rec = ctx.rec
    rec.case()
    rec.monitor('statement_extents')
    T_ = rng.choice([4096, 8192, 16384, 65536])
    target = rng.choice([
        "select 'archived; do not use; ever' as note, \"a;b\" from t /* c; d */ where x = $q$ 1; 2 $q$;",
        "insert into t values ('line one;\nline two;', 2) -- tail; comment\n;",
        "select a from (select 1; ) z where b in (1; 2);",
    ])
    unit = rng.choice(['select 1;\n', 'select a, b from t where c = 1;\n',
                       "insert into t values (1, 'x');\n"])
    n = max(0, (T_ - rng.randint(0, len(target))) // len(unit))
    fill = (T_ - rng.randint(0, len(target))) - n * len(unit)
    text = unit * n + ' ' * max(0, fill) + target + '\nselect 2;'
    want = n + 2
    case = {'text': text[-400:], 'k': want, 'offset': T_,
            'stmt_spans': []}
    try:
        got = len(sqlparse.split(text))
        gotp = len(sqlparse.parse(text)) if T_ <= 8192 else got
    except Exception:
        rec.count('exception_(C07)')
        return
    if got != want or gotp != want:
        rec.violation('count-at-offset', case,
                      'a statement with ; inside its opaque regions placed '
                      'across offset %d: split gives %d statements, parse %d, '
                      'expected %d' % (T_, got, gotp, want), key=('pad', T_))
    rec.nontrivial(('padded', T_, target[:10], unit[:10]))
    rec.count('padded_cases')


def shard(ctx):
    k = 0
    while ctx.running():
        k += 1
        if k % 120 == 60:
            padded_case(ctx, ctx.rng)
        else:
            one_case(ctx, ctx.rng)


def replay(ctx, kind, case):
    rec = ctx.rec
    text = case.get('text2') or case['text']
    pieces = sqlparse.split(text)
    if 'region' in case:
        base = piece_positions(case['text'], sqlparse.split(case['text']))
        k, a, b = case['region']
        delta = len(case['new']) - (b - a)
        pos2 = piece_positions(text, pieces)

        def norm(pos, shift, eor):
            return [tuple(v if v <= a else v - shift if v >= eor
                          else 'in-region' for v in xy) for xy in pos or []]
        if norm(base, 0, b) != norm(pos2, delta, b + delta):
            rec.violation(kind, case, 'replay: boundaries differ: %r vs %r'
                          % (norm(base, 0, b)[:5],
                             norm(pos2, delta, b + delta)[:5]))
    else:
        pos = piece_positions(text, pieces)
        spans = case['stmt_spans']
        if len(pieces) != case['k']:
            rec.violation(kind, case, 'replay: %d pieces for %d statements'
                          % (len(pieces), case['k']))
        elif pos is not None:
            for i, (x, y) in enumerate(pos):
                s0, s1 = spans[i]
                lo = spans[i - 1][1] if i else 0
                hi = spans[i + 1][0] if i + 1 < len(spans) else len(text)
                if not (lo <= x <= s0 and s1 <= y <= hi):
                    rec.violation(kind, case, 'replay: extent of piece %d'
                                  % i)


def witness(w):
    t = w['input']
    n = len(sqlparse.split(t))
    if n != w['expected_pieces']:
        return True, 'split(%r) gives %d pieces, expected %d' % (
            t, n, w['expected_pieces'])
    return False, ''
