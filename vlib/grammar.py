"""The verification grammar (DESIGN §2): a seeded generator of statements
as token lists with derivation metadata, and a separate layout step that
renders them to text. Two renderings of one derivation differ only in layout.

Token kinds:  kw name qname bname int float str dollar punct op cmp star
Gap classes (the gap *before* a token):
  'none'  nothing may be written there (qualifier dots, f( )
  'opt'   whitespace and comments allowed, emptiness allowed
  'req'   at least one whitespace character or a comment
"""
import re

from sqlparse import keywords as _kw, lexer as _lexer, tokens as _T

WORDLIKE = {'kw', 'name', 'qname', 'bname', 'int', 'float', 'str', 'dollar'}


class Tok:
    __slots__ = ('kind', 'text', 'gap', 'words')

    def __init__(self, kind, text, gap='req', words=None):
        self.kind = kind
        self.text = text
        self.gap = gap
        self.words = words      # for multi-word keywords

    def __repr__(self):
        return 'Tok(%s,%r,%s)' % (self.kind, self.text, self.gap)


class Stmt:
    def __init__(self):
        self.toks = []
        self.refs = []      # dicts: first,last,qual,name,alias,has_as,ctx
        self.wheres = []    # (first,last)
        self.lists = []     # (ctx, [(first,last),...])
        self.calls = []     # (first,last,[(first,last),...])
        self.cases = []     # (first,last, parts)
        self.comps = []     # ((f,l), op_idx, (f,l))
        self.typed = []     # (first,last)
        self.parens = []    # (open_idx, close_idx)
        self.leading = None
        self.stype = None
        self.features = set()

    def n(self):
        return len(self.toks)


_ALL_KEYWORDS = None


def all_keywords():
    global _ALL_KEYWORDS
    if _ALL_KEYWORDS is None:
        s = set()
        for name in dir(_kw):
            if name.startswith('KEYWORDS'):
                d = getattr(_kw, name)
                if isinstance(d, dict):
                    s.update(k.upper() for k in d)
        _ALL_KEYWORDS = s
    return _ALL_KEYWORDS


_name_ok_cache = {}


# words the lexer's dedicated rules treat specially and that are not in
# every dictionary (static: the name filter must not depend on the lexer
# under test, or a lexer defect would silently remove its own witnesses)
SPECIAL_WORDS = {'ASC', 'DESC', 'ILIKE', 'RLIKE', 'REGEXP', 'GO', 'STRAIGHT',
                 'STRAIGHT_JOIN',
                 'NULLS', 'LATERAL', 'EXPLODE', 'INLINE', 'POSEXPLODE',
                 'STACK', 'PARSE_URL_TUPLE', 'HANDLER', 'ZONE'}


def name_ok(word):
    """A plain name is in no keyword dictionary (any letter case) and is not
    one of the words with a dedicated lexer rule."""
    r = _name_ok_cache.get(word)
    if r is None:
        up = word.upper()
        r = up not in all_keywords() and up not in SPECIAL_WORDS
        _name_ok_cache[word] = r
    return r


LETTERS = 'abcdefghijklmnopqrstuvwxyz'
NAME_POOL = ['a', 'b', 'c', 'x', 'y', 'z2', 'foo', 'bar', 'baz', 'tbl',
             'col1', 'qty', 'amount', 'cust', 'ordr', 'Foo', 'BAR', 'myTable',
             't1', 't2', 'u', 'v', 'w', 'k1', 'idx', 'total_amt', '_x', 'a_b',
             'Äb', 'Über', 'x9', 'itm', 'grp', 'nm',
             # names that start or end like a keyword (rule boundaries)
             'description', 'descr', 'desc_id', 'ascii_code', 'asc_tab',
             'endpoint', 'end_date', 'joined', 'join_date', 'notes',
             'nullable', 'order_id', 'group_id', 'union_id', 'in_stock',
             'as_of', 'from_date', 'case_id', 'values_x', 'using_x', 'likes',
             'go_live', 'create_dt', 'selected', 'created_at', 'where_x',
             'limit_x', 'ontime', 'andrew', 'interval_x', 'date_x',
             'timestamp_x', 'begin_dt', 'declare_x', 'loop_x', 'for_x',
             'while_x', 'then_x', 'elsewhere', 'whenever', 'null_x',
             'nulls_x', 'first_x', 'last_name', 'primary_x', 'key_x',
             'double_x', 'lateral_x', 'handler_x', 'at_time', 'not_null_x',
             'regexp_x', 'ilike_x', 'casey', 'ifx', 'iffy', 'endif',
             'orderby', 'groupby', 'leftjoin', 'xjoin', 'xend', 'xcase',
             'xfrom', 'xas', 'xin', 'INx', 'ASx', 'FROMx', 'CASEx']
FUNC_POOL = ['f', 'g', 'coalesce2', 'myfn', 'upper2', 'lower2', 'nvl_2',
             'concat2', 'fn_x', 'agg1', 'sum2', 'len2', 'desc_fn', 'asc_fn']
TYPE_POOL = ['int', 'integer', 'text', 'varchar', 'numeric', 'bigint']
STR_BODIES = ['', 'a', 'abc', 'hello world', 'it', 'x;y', 'a;', '--no',
              '/* no */', '(', ')', '(x', 'select 1', 'end', 'begin', 'é',
              'ÄÖ', 'a,b', '100%', 'a b  c', 'WHERE', 'x = 1', '0',
              'long string with several words in it', '$$', '#', 'a.b',
              'a\\b', 'C:\\tmp;D:\\data']
QNAME_BODIES = ['q', 'my col', 'select', 'a;b', 'a--b', 'x/*y', 'a.b', 'T 1',
                'Order', 'from', 'é', 'x y z', '(p)', 'end', 'a,b']
# double-quoted only: a doubled quote inside the name
DQ_ONLY_BODIES = ['a""b', 'say ""hi""', '""x']
COMMENT_BODIES = ['c', 'note', 'x\n\n\ny', 'blank lines:\n\n\n\nend', 'x;y', 'select 1;', '*', 'a * b', 'todo: fix',
                  'end', 'begin', '(', ')', 'from t', '--', 'é', '', ' pad ',
                  'where x = 1', 'a, b']


class Config:
    def __init__(self, **kw):
        self.max_depth = 3
        self.subqueries = True
        self.case = True
        self.calls = True
        self.typed_literals = True
        self.casts = True
        self.dollar = True
        self.quoted_names = True
        self.ctes = True
        self.joins = True
        self.setops = True
        self.multiline_literals = True   # line breaks inside '...' / "..."
        self.ddl = True
        self.dml = True
        self.aliases = True
        self.qualify = True
        self.nonascii = True
        self.order_nulls = True
        self.bare_alias = True
        self.star = True
        self.arith = True
        self.between = True
        self.in_lists = True
        self.exists = True
        self.limit = True
        self.distinct = True
        self.unary_minus = True
        self.keyword_literals = True
        self.tight_operators = True
        self.transactions = True
        self.placeholders = True
        self.returning = True
        self.wide_lists = True
        self.tzcast = True
        # PostgreSQL's bitwise XOR 'a #<line break> b': '#' followed by a
        # blank opens a MySQL comment, so the operator is only written in
        # front of a line break or a tab. Off by default: a formatter that
        # rewrites that gap to a blank changes the meaning (cf. D25), which
        # is no concern of the checks that only split (C05 switches it on).
        self.hash_operator = False
        for k, v in kw.items():
            if not hasattr(self, k):
                raise TypeError(k)
            setattr(self, k, v)


class Gen:
    def __init__(self, rng, cfg=None):
        self.rng = rng
        self.cfg = cfg or Config()
        self.s = None

    # ------------------------------------------------------------ emitters
    def emit(self, kind, text, gap='req', words=None):
        self.s.toks.append(Tok(kind, text, gap, words))
        return len(self.s.toks) - 1

    def kw(self, text, gap='req'):
        words = text.split()
        return self.emit('kw', text, gap, words if len(words) > 1 else None)

    def punct(self, text, gap='opt'):
        return self.emit('punct', text, gap)

    def open_paren(self, gap='opt'):
        return self.punct('(', gap)

    def close_paren(self, open_idx):
        i = self.punct(')', 'opt')
        self.s.parens.append((open_idx, i))
        return i

    def gap_after_punct(self):
        """Gap class for a token that follows ( or , : optional."""
        return 'opt'

    def last_kind(self):
        return self.s.toks[-1].kind if self.s.toks else None

    def g(self, default='req'):
        """Gap before a word-like token: optional after ( , ; and cmp."""
        if not self.s.toks:
            return 'opt'
        last = self.s.toks[-1]
        if last.kind == 'punct' and last.text in '(,;':
            return 'opt'
        if last.kind == 'cmp':
            return 'opt'
        return default

    # ------------------------------------------------------------ lexical
    def plain_name(self):
        rng = self.rng
        for _ in range(50):
            if rng.random() < 0.7:
                w = rng.choice(NAME_POOL)
            else:
                w = rng.choice(LETTERS + 'ABC_') + ''.join(
                    rng.choice(LETTERS + '0123456789_ABCXYZ')
                    for _ in range(rng.randint(0, 7)))
            if not self.cfg.nonascii and not w.isascii():
                continue
            if name_ok(w):
                return w
        return 'zz9'

    def name_token(self, gap=None, allow_quoted=True):
        """Emit a name in one of the three quoting styles; returns
        (index, bare name)."""
        rng = self.rng
        gap = gap if gap is not None else self.g()
        x = rng.random()
        if self.cfg.quoted_names and allow_quoted and x < 0.12:
            body = rng.choice(QNAME_BODIES + DQ_ONLY_BODIES[:1]
                              if rng.random() < 0.9 else DQ_ONLY_BODIES)
            if not self.cfg.nonascii and not body.isascii():
                body = 'q q'
            return self.emit('qname', '"%s"' % body, gap), body
        if self.cfg.quoted_names and allow_quoted and x < 0.2:
            body = rng.choice(QNAME_BODIES)
            if not self.cfg.nonascii and not body.isascii():
                body = 'b b'
            return self.emit('bname', '`%s`' % body, gap), body
        w = self.plain_name()
        return self.emit('name', w, gap), w

    def number(self, gap=None):
        rng = self.rng
        gap = gap if gap is not None else self.g()
        x = rng.random()
        if x < 0.6:
            return self.emit('int', str(rng.choice([0, 1, 2, 7, 10, 42, 100,
                                                    2024, 99999])), gap)
        if x < 0.85:
            return self.emit('float', rng.choice(['1.5', '0.25', '3.14',
                                                  '10.0', '2.']), gap)
        return self.emit('float', rng.choice(['1e3', '2.5E10', '1E-2']), gap)

    def string(self, gap=None):
        rng = self.rng
        gap = gap if gap is not None else self.g()
        body = rng.choice(STR_BODIES)
        if not self.cfg.nonascii and not body.isascii():
            body = 'abc'
        if rng.random() < 0.15:
            body = body + "''" + rng.choice(STR_BODIES)
        if self.cfg.multiline_literals and rng.random() < 0.08:
            body = body + rng.choice(['\n', '\r\n', ' \n ']) + 'z'
        if not self.cfg.nonascii and not body.isascii():
            body = 'abc'
        return self.emit('str', "'%s'" % body, gap)

    def dollar(self, gap=None):
        rng = self.rng
        gap = gap if gap is not None else self.g()
        tag = rng.choice(['', '', 'a', 'body', '_t'])
        if rng.random() < 0.05:
            # tags have no length limit
            tag = 'tag_' + 'x' * rng.choice([59, 60, 61, 96, 296])
        body = rng.choice(['x', 'a;b', 'select 1; select 2', '(', 'end;',
                           ' -- c ', '/* c */', ''])
        return self.emit('dollar', '$%s$%s$%s$' % (tag, body, tag), gap)

    # ------------------------------------------------------------ exprs
    def colref(self, gap=None, ctx='expr', record=False):
        """[qual.]name ; returns (first,last,qual,name)."""
        rng = self.rng
        qual = None
        first = None
        if self.cfg.qualify and rng.random() < 0.35:
            first, qual = self.name_token(gap)
            self.punct('.', 'none')
            if self.cfg.star and ctx == 'select' and rng.random() < 0.1:
                last = self.emit('star', '*', 'none')
                return first, last, qual, '*'
            # after a dot only gap 'none'
            x = rng.random()
            if self.cfg.quoted_names and x < 0.15:
                body = rng.choice(QNAME_BODIES)
                if not self.cfg.nonascii and not body.isascii():
                    body = 'q'
                last = self.emit('qname', '"%s"' % body, 'none')
                nm = body
            else:
                nm = self.plain_name()
                last = self.emit('name', nm, 'none')
            return first, last, qual, nm
        first, nm = self.name_token(gap)
        return first, first, None, nm

    def atom(self, depth, gap=None):
        """Emit an operand; returns (first,last,kind)."""
        rng, cfg = self.rng, self.cfg
        x = rng.random()
        if x < 0.34:
            f, l, _, _ = self.colref(gap)
            return f, l, 'col'
        if x < 0.48:
            i = self.number(gap)
            return i, i, 'num'
        if x < 0.58:
            i = self.string(gap)
            return i, i, 'str'
        if x < 0.70 and cfg.calls and depth > 0:
            f, l = self.call(depth - 1, gap)
            return f, l, 'call'
        if x < 0.77 and depth > 0:
            o = self.open_paren(gap if gap is not None else self.g())
            self.expr(depth - 1)
            c = self.close_paren(o)
            return o, c, 'paren'
        if x < 0.82 and cfg.subqueries and depth > 1:
            o = self.open_paren(gap if gap is not None else self.g())
            self.select_core(depth - 2, scalar=True)
            c = self.close_paren(o)
            self.s.features.add('subquery')
            return o, c, 'subq'
        if x < 0.88 and cfg.case and depth > 0:
            f, l = self.case_expr(depth - 1, gap)
            return f, l, 'case'
        if x < 0.92 and cfg.typed_literals:
            f, l = self.typed_literal(gap)
            return f, l, 'typed'
        if x < 0.95 and cfg.casts:
            f, l, _, _ = self.colref(gap)
            self.punct('::', 'none')
            l = self.emit('name', rng.choice(TYPE_POOL), 'none')
            self.s.features.add('cast')
            return f, l, 'cast'
        if 0.996 <= x and cfg.tzcast:
            # col AT TIME ZONE 'zone' : one keyword token holding a literal;
            # the operand may also be a DATE / TIMESTAMP literal, which must
            # stay one TypedLiteral (also with an alias behind: D27, fixed)
            if cfg.typed_literals and rng.random() < 0.4:
                f = self.emit('kw', rng.choice(['DATE', 'timestamp']),
                              gap if gap is not None else self.g())
                l = self.emit('str', "'2001-09-28'", 'req')
                self.s.typed.append((f, l))
                self.s.features.add('typed-tz')
            else:
                f, l, _, _ = self.colref(gap)
            zone = rng.choice(["'UTC'", "'America/Port  of  Spain'",
                               "'Europe/Berlin'", "'a\tb'"])
            l = self.emit('kw', 'AT TIME ZONE ' + zone, 'req',
                          ['AT', 'TIME', 'ZONE', zone])
            self.s.features.add('tzcast')
            return f, l, 'tz'
        if x < 0.97 and cfg.dollar:
            i = self.dollar(gap)
            self.s.features.add('dollar')
            return i, i, 'dollar'
        if 0.992 <= x < 0.998 and cfg.placeholders:
            # bind parameters: ?  %s  %(name)s  :name  $1
            i = self.emit('name', rng.choice(['?', '%s', '%(name)s', ':p1',
                                              '$1', ':name', '%(x_1)s']),
                          gap if gap is not None else self.g())
            self.s.features.add('placeholder')
            return i, i, 'placeholder'
        after_not = bool(self.s.toks) and self.s.toks[-1].kind == 'kw' \
            and self.s.toks[-1].text.upper() in ('NOT', 'IS')
        # ('NOT NULL' is one keyword for the lexer)
        if x < 0.99 and cfg.keyword_literals and x >= 0.985 \
                and not after_not:
            w = rng.choice(['NULL', 'null', 'Null', 'TRUE', 'true', 'FALSE',
                            'false'])
            i = self.emit('kw', w, gap if gap is not None else self.g())
            self.s.features.add('kwlit')
            return i, i, 'null' if w.upper() == 'NULL' else 'bool'
        if x < 0.985 and cfg.unary_minus:
            # unary minus: an operator directly followed by its operand (and,
            # behind a comparison, directly preceded by another operator)
            f = self.emit('op', '-', gap if gap is not None else self.g())
            if rng.random() < 0.7 or depth <= 0:
                l = self.emit('name', self.plain_name(), 'none')
            else:
                o = self.open_paren('none')
                self.expr(depth - 1)
                l = self.close_paren(o)
            self.s.features.add('neg')
            return f, l, 'neg'
        f, l, _, _ = self.colref(gap)
        return f, l, 'col'

    def typed_literal(self, gap=None):
        rng = self.rng
        gap = gap if gap is not None else self.g()
        x = rng.random()
        self.s.features.add('typed')
        if x < 0.4:
            f = self.emit('kw', rng.choice(['DATE', 'date']), gap)
            l = self.emit('str', "'2001-09-28'", 'req')
        elif x < 0.7:
            f = self.emit('kw', rng.choice(['TIMESTAMP', 'timestamp']), gap)
            l = self.emit('str', "'2001-09-28 01:00'", 'req')
        else:
            f = self.emit('kw', rng.choice(['INTERVAL', 'interval']), gap)
            self.emit('str', "'%d'" % rng.randint(1, 30), 'req')
            l = self.emit('kw', rng.choice(['day', 'DAY', 'hour', 'month',
                                            'YEAR', 'minute', 'second']),
                          'req')
        self.s.typed.append((f, l))
        return f, l

    def call(self, depth, gap=None):
        rng = self.rng
        gap = gap if gap is not None else self.g()
        fname = rng.choice(FUNC_POOL)
        f = self.emit('name', fname, gap)
        o = self.open_paren('none')
        nargs = rng.choice([0, 1, 1, 2, 2, 3, 4])
        args = []
        for k in range(nargs):
            if k:
                self.punct(',', 'opt')
            a, b, kind = self.atom_or_expr(depth)
            args.append((a, b, kind))
        c = self.close_paren(o)
        self.s.calls.append((f, c, args))
        self.s.features.add('call')
        return f, c

    def atom_or_expr(self, depth):
        if self.cfg.arith and self.rng.random() < 0.2 and depth > 0:
            return self.expr(depth - 1, force_op=True)
        return self.atom(depth)

    def expr(self, depth, gap=None, force_op=False):
        """atom (op atom)* ; returns (first,last,kind)."""
        rng = self.rng
        f, l, kind = self.atom(depth, gap)
        n = 0
        if self.cfg.arith:
            if force_op:
                n = 1
            elif rng.random() < 0.3:
                n = rng.choice([1, 1, 2, 3])
        pure = kind not in ('case', 'dollar', 'neg', 'null', 'bool', 'tz')
        last_kind = kind
        for _ in range(n):
            op = rng.choice(['+', '-', '*', '/', '||', '%'])
            if self.cfg.hash_operator and rng.random() < 0.35:
                self.emit('op', '#', 'req')
                _, l, k2 = self.atom(depth, 'nl!')
                last_kind = k2
                pure = False
                kind = 'operation-x'
                self.s.features.add('hash-operator')
                continue
            # operators may be written without blanks where the lexer cannot
            # fuse them with a neighbour ('%s' is a placeholder, '-1' a
            # number, '--' / '/*' comment openers)
            tight = op in ('+', '*', '||') and rng.random() < 0.3 \
                and self.cfg.tight_operators and last_kind != 'placeholder'
            i_op = self.emit('op', op, 'opt' if tight else 'req')
            n_before = len(self.s.toks)
            _, l, k2 = self.atom(depth, 'opt' if tight else 'req')
            last_kind = k2
            if tight and k2 in ('neg', 'num', 'dollar', 'placeholder'):
                # '+-x', '+.5': keep a blank after the operator
                self.s.toks[n_before].gap = 'req'
            pure = pure and k2 not in ('case', 'dollar', 'neg', 'null',
                                       'bool', 'tz')
            # an operand the operator grouping does not accept (CASE,
            # dollar-quoted literal) leaves the expression ungrouped
            kind = 'operation' if pure else 'operation-x'
        return f, l, kind

    def case_expr(self, depth, gap=None):
        rng = self.rng
        gap = gap if gap is not None else self.g()
        f = self.kw('CASE', gap)
        parts = []
        simple = rng.random() < 0.3
        if simple:
            a, b, _ = self.atom(0, 'req')
            parts.append(('operand', a, b))
        for _ in range(rng.randint(1, 3)):
            self.kw('WHEN')
            if simple:
                a, b, _ = self.atom(0, 'req')
            else:
                a, b = self.cond(min(depth, 1), top=False)
            self.kw('THEN')
            c, d, _ = self.expr(depth, 'req')
            parts.append(('when', a, b, c, d))
        if rng.random() < 0.6:
            self.kw('ELSE')
            c, d, _ = self.expr(depth, 'req')
            parts.append(('else', c, d))
        l = self.kw('END')
        self.s.cases.append((f, l, parts))
        self.s.features.add('case')
        return f, l

    # ------------------------------------------------------------ conds
    def predicate(self, depth):
        rng, cfg = self.rng, self.cfg
        x = rng.random()
        if x < 0.5:
            a = self.expr(depth, self.g())
            op = self.emit('cmp', rng.choice(['=', '=', '<', '>', '<=', '>=',
                                              '<>', '!=']), 'opt')
            b = self.expr(depth, 'opt')
            if b[2] == 'typed' and cfg.tzcast and rng.random() < 0.3 \
                    and self.s.toks[b[0]].text.upper() != 'INTERVAL':
                # DATE/TIMESTAMP '...' AT TIME ZONE 'UTC' as the right
                # operand
                zone = rng.choice(["'UTC'", "'Europe/Berlin'"])
                l = self.emit('kw', 'AT TIME ZONE ' + zone, 'req',
                              ['AT', 'TIME', 'ZONE', zone])
                self.s.features.add('tzcast')
                self.s.features.add('typed-tz')
                self.s.comps.append((a, op, (b[0], b[1], 'typed-tz')))
                return a[0], l
            self.s.comps.append((a, op, b))
            return a[0], b[1]
        if x < 0.6:
            a = self.atom(depth, self.g())
            op = self.emit('cmp', rng.choice(['LIKE', 'NOT LIKE', 'ILIKE',
                                              'like', 'not like']), 'req')
            self.s.toks[op].words = self.s.toks[op].text.split() \
                if ' ' in self.s.toks[op].text else None
            b = self.string('req')
            self.s.comps.append((a, op, (b, b, 'str')))
            return a[0], b
        if x < 0.7:
            f, l, _, _ = self.colref(self.g())
            self.kw('IS')
            if rng.random() < 0.5:
                self.kw('NOT NULL')
                return f, len(self.s.toks) - 1
            l = self.kw('NULL')
            return f, l
        if x < 0.78 and cfg.between:
            f, _, _ = self.atom(0, self.g())
            self.kw('BETWEEN')
            self.atom(0, 'req')
            self.kw('AND')
            _, l, _ = self.atom(0, 'req')
            self.s.features.add('between')
            return f, l
        if x < 0.88 and cfg.in_lists:
            f, _, _, _ = self.colref(self.g())
            if rng.random() < 0.3:
                self.kw('NOT')
            self.kw('IN')
            o = self.open_paren('req')
            if cfg.subqueries and depth > 1 and rng.random() < 0.4:
                self.select_core(depth - 2, scalar=True)
                self.s.features.add('subquery')
            else:
                for k in range(rng.randint(1, 4)):
                    if k:
                        self.punct(',', 'opt')
                    if rng.random() < 0.5:
                        self.number()
                    else:
                        self.string()
            l = self.close_paren(o)
            return f, l
        if x < 0.93 and cfg.exists and cfg.subqueries and depth > 1:
            f = self.kw('EXISTS', self.g())
            o = self.open_paren('req')
            self.select_core(depth - 2, scalar=True)
            l = self.close_paren(o)
            self.s.features.add('subquery')
            return f, l
        if cfg.placeholders and cfg.keyword_literals and rng.random() < 0.25:
            # a parenthesis whose children are all plain tokens: bind
            # parameters / literals tested with IS [NOT] NULL, joined by
            # AND / OR (no identifier, no comparison: nothing is grouped)
            o = self.open_paren(self.g())
            for k in range(rng.choice([2, 2, 3])):
                if k:
                    self.kw(rng.choice(['AND', 'OR']))
                y = rng.random()
                if y < 0.6:
                    self.emit('name', rng.choice(['?', ':p1', '%s', ':name',
                                                  '$1']), self.g())
                    self.s.features.add('placeholder')
                elif y < 0.8:
                    self.number()
                else:
                    self.string()
                self.kw('IS')
                self.kw(rng.choice(['NULL', 'NOT NULL']))
            l = self.close_paren(o)
            self.s.features.add('flat-bool-paren')
            return o, l
        if depth > 0:
            o = self.open_paren(self.g())
            self.cond(depth - 1, top=False)
            l = self.close_paren(o)
            return o, l
        a = self.expr(depth, self.g())
        op = self.emit('cmp', '=', 'opt')
        b = self.expr(depth, 'opt')
        self.s.comps.append((a, op, b))
        return a[0], b[1]

    def cond(self, depth, top=True):
        rng = self.rng
        f, l = self.predicate(depth)
        n = rng.choice([0, 0, 1, 1, 2, 3]) if top else rng.choice([0, 0, 1])
        for _ in range(n):
            self.kw(rng.choice(['AND', 'OR', 'AND']))
            if rng.random() < 0.1:
                self.kw('NOT')
            _, l = self.predicate(depth)
        return f, l

    # ------------------------------------------------------------ select
    def alias(self, allow_bare=True):
        """Optional alias; returns (alias, has_as) or (None, False)."""
        rng = self.rng
        if not self.cfg.aliases or rng.random() < 0.55:
            return None, False, None
        has_as = True
        if allow_bare and self.cfg.bare_alias and rng.random() < 0.4:
            has_as = False
        if has_as:
            self.kw(rng.choice(['AS', 'as', 'As']))
        i, nm = self.name_token('req')
        if has_as and self.s.toks[i].kind in ('qname', 'bname') \
                and rng.random() < 0.3:
            self.s.toks[i].gap = 'opt'        # AS"x" / AS`x`
        return nm, has_as, i

    def select_item(self, depth, ctx):
        rng = self.rng
        start = len(self.s.toks)
        x = rng.random()
        if x < 0.5:
            f, l, qual, nm = self.colref(self.g(), ctx='select')
            if nm == '*':
                return f, l, 'col'
            al, has_as, ai = self.alias()
            ref = dict(first=f, last=ai if ai is not None else l, qual=qual,
                       name=nm, alias=al, has_as=has_as, ctx=ctx, name_tok=l)
            self.s.refs.append(ref)
            return f, ref['last'], 'col'
        if self.cfg.keyword_literals and rng.random() < 0.06:
            # NULL [AS alias] as a list item, in any letter case
            w = rng.choice(['NULL', 'null', 'Null', 'nULL'])
            f = self.emit('kw', w, self.g())
            if rng.random() < 0.6:
                self.kw(rng.choice(['AS', 'as']))
                ai, _ = self.name_token('req')
                self.s.features.add('null-as')
                return f, ai, 'aliased'
            return f, f, 'null'
        f, l, kind = self.expr(depth, self.g())
        bare_ok = kind in ('col', 'call', 'paren')
        if kind == 'bool':
            return f, l, kind          # TRUE/FALSE carry no alias
        al, has_as, ai = self.alias(allow_bare=bare_ok)
        if ai is not None and kind not in ('operation-x', 'neg'):
            kind = 'aliased'
        return f, ai if ai is not None else l, kind

    def table_ref(self, depth, ctx):
        rng = self.rng
        if self.cfg.subqueries and depth > 1 and rng.random() < 0.15:
            o = self.open_paren(self.g())
            self.select_core(depth - 2, scalar=False)
            c = self.close_paren(o)
            self.s.features.add('subquery')
            if rng.random() < 0.5:
                self.kw('AS')
            i, nm = self.name_token('req')
            return o, i, 'aliased'
        f, l, qual, nm = self.colref(self.g(), ctx='from')
        al, has_as, ai = self.alias()
        ref = dict(first=f, last=ai if ai is not None else l, qual=qual,
                   name=nm, alias=al, has_as=has_as, ctx=ctx, name_tok=l)
        self.s.refs.append(ref)
        return f, ref['last'], 'col'

    JOINS = ['JOIN', 'INNER JOIN', 'LEFT JOIN', 'LEFT OUTER JOIN',
             'RIGHT JOIN', 'RIGHT OUTER JOIN', 'FULL OUTER JOIN',
             'FULL JOIN', 'CROSS JOIN', 'NATURAL JOIN']

    def select_core(self, depth, scalar=False, top=False):
        rng, cfg = self.rng, self.cfg
        first = self.kw('SELECT', self.g('req') if self.s.toks else 'opt')
        if cfg.distinct and rng.random() < 0.1:
            self.kw('DISTINCT')
        if cfg.star and rng.random() < 0.15:
            self.emit('star', '*', 'req')
        else:
            n = 1 if scalar and rng.random() < 0.6 else rng.choice(
                [1, 1, 2, 2, 3, 4])
            item_depth = depth
            if top and cfg.wide_lists and rng.random() < 0.012:
                n = rng.choice([90, 120, 260])     # size thresholds
                item_depth = 0
                depth = max(depth, 2)              # FROM may hold a subquery
            items = []
            for k in range(n):
                if k:
                    self.punct(',', 'opt')
                items.append(self.select_item(item_depth,
                                              'select%d' % min(k, 1)
                                              if n > 1 else 'select-single'))
            if n > 1:
                self.s.lists.append(('select', items))
        if rng.random() < 0.9:
            self.kw('FROM')
            n = rng.choice([1, 1, 1, 2, 3])
            items = []
            for k in range(n):
                if k:
                    self.punct(',', 'opt')
                items.append(self.table_ref(depth, 'from-list' if n > 1
                                            else 'from-single'))
            if n > 1:
                self.s.lists.append(('from', items))
            if cfg.joins:
                for _ in range(rng.choice([0, 0, 0, 1, 1, 2])):
                    j = rng.choice(self.JOINS)
                    self.kw(j)
                    self.table_ref(0, 'join')
                    if 'CROSS' not in j and 'NATURAL' not in j:
                        self.kw('ON')
                        self.cond(min(depth, 1), top=False)
                    self.s.features.add('join')
            if rng.random() < 0.55:
                w = self.kw('WHERE')
                _, l = self.cond(depth)
                self.s.wheres.append((w, l))
                self.s.features.add('where')
            if rng.random() < 0.2:
                self.kw('GROUP BY')
                n = rng.choice([1, 1, 2])
                for k in range(n):
                    if k:
                        self.punct(',', 'opt')
                    self.colref(self.g())
                if rng.random() < 0.5:
                    self.kw('HAVING')
                    self.cond(min(depth, 1), top=False)
                self.s.features.add('groupby')
        if not scalar or rng.random() < 0.2:
            if rng.random() < 0.25:
                self.kw('ORDER BY')
                n = rng.choice([1, 1, 2])
                for k in range(n):
                    if k:
                        self.punct(',', 'opt')
                    self.colref(self.g())
                    x = rng.random()
                    if x < 0.5:
                        o = rng.choice(['ASC', 'DESC'])
                        if cfg.order_nulls and rng.random() < 0.3:
                            o += ' NULLS ' + rng.choice(['FIRST', 'LAST'])
                        self.emit('kw', o, 'req', o.split() if ' ' in o
                                  else None)
                    elif x < 0.6 and cfg.order_nulls:
                        # NULLS FIRST/LAST without ASC/DESC: a rule of its own
                        o = 'NULLS ' + rng.choice(['FIRST', 'LAST'])
                        self.emit('kw', o, 'req', o.split())
                self.s.features.add('orderby')
            if cfg.limit and rng.random() < 0.15:
                self.kw('LIMIT')
                self.emit('int', str(rng.choice([1, 10, 100])), 'req')
                self.s.features.add('limit')
        return first

    def select_stmt(self, depth):
        rng = self.rng
        self.select_core(depth, top=True)
        if self.cfg.setops and rng.random() < 0.12:
            op = rng.choice(['UNION', 'UNION ALL', 'EXCEPT', 'EXCEPT ALL'])
            if op == 'EXCEPT ALL':
                self.kw('EXCEPT')      # two keywords for the lexer
                self.kw('ALL')
            else:
                self.kw(op)
            if rng.random() < 0.3:
                o = self.open_paren('req')       # ... EXCEPT (select ...)
                self.select_core(max(depth - 1, 0), top=True)
                self.close_paren(o)
            else:
                self.select_core(max(depth - 1, 0), top=True)
            self.s.features.add('setop')

    # ------------------------------------------------------------ others
    def insert_stmt(self, depth):
        rng = self.rng
        self.kw('INSERT', 'opt')
        self.kw('INTO')
        f, l, qual, nm = self.colref(ctx='insert')
        ncols = rng.choice([0, 1, 2, 3])
        if ncols:
            # the target followed by a column list is grouped as a call:
            # still an object reference (wrapped in a Function)
            o = self.open_paren('req')
            for k in range(ncols):
                if k:
                    self.punct(',', 'opt')
                self.name_token(self.g(), allow_quoted=False)
            self.close_paren(o)
        self.s.refs.append(dict(first=f, last=l, qual=qual, name=nm,
                                alias=None, has_as=False, name_tok=l,
                                ctx='insert-cols' if ncols else 'insert'))
        if rng.random() < 0.7 or not self.cfg.subqueries:
            self.kw('VALUES')
            for r in range(rng.choice([1, 1, 2, 3, 4])):
                if r:
                    self.punct(',', 'opt')
                o = self.open_paren('req' if not r else 'opt')
                for k in range(max(ncols, 1)):
                    if k:
                        self.punct(',', 'opt')
                    if rng.random() < 0.5:
                        self.number()
                    else:
                        self.string()
                self.close_paren(o)
            self.s.features.add('values')
        else:
            self.select_core(max(depth - 1, 0), top=True)

    def returning(self):
        """[RETURNING cols | t.*] behind INSERT/UPDATE/DELETE."""
        rng = self.rng
        if not self.cfg.returning or rng.random() > 0.2:
            return
        self.kw('RETURNING')
        if rng.random() < 0.4:
            self.name_token('req', allow_quoted=False)
            self.punct('.', 'none')
            self.emit('star', '*', 'none')
        else:
            for k in range(rng.choice([1, 1, 2])):
                if k:
                    self.punct(',', 'opt')
                self.colref(self.g())
        self.s.features.add('returning')

    def update_stmt(self, depth):
        rng = self.rng
        self.kw('UPDATE', 'opt')
        f, l, qual, nm = self.colref(ctx='update')
        self.s.refs.append(dict(first=f, last=l, qual=qual, name=nm,
                                alias=None, has_as=False, ctx='update',
                                name_tok=l))
        self.kw('SET')
        for k in range(rng.choice([1, 1, 2, 3])):
            if k:
                self.punct(',', 'opt')
            a, _ = self.name_token(self.g(), allow_quoted=False)
            self.emit('cmp', '=', 'opt')
            self.atom(min(depth, 1), 'opt')
        if rng.random() < 0.7:
            w = self.kw('WHERE')
            _, l = self.cond(min(depth, 1))
            self.s.wheres.append((w, l))
            self.s.features.add('where')
        self.returning()

    def delete_stmt(self, depth):
        rng = self.rng
        self.kw('DELETE', 'opt')
        self.kw('FROM')
        f, l, qual, nm = self.colref(ctx='delete')
        self.s.refs.append(dict(first=f, last=l, qual=qual, name=nm,
                                alias=None, has_as=False, ctx='delete',
                                name_tok=l))
        if rng.random() < 0.8:
            w = self.kw('WHERE')
            _, l = self.cond(min(depth, 1))
            self.s.wheres.append((w, l))
            self.s.features.add('where')
        self.returning()

    def transaction_stmt(self, depth):
        rng = self.rng
        words = rng.choice(['BEGIN', 'BEGIN TRANSACTION', 'COMMIT',
                            'ROLLBACK', 'START TRANSACTION', 'END',
                            'BEGIN WORK', 'COMMIT WORK'])
        first = True
        for w in words.split():
            self.kw(w, 'opt' if first else 'req')
            first = False
        lead = words.split()[0]
        return lead if lead in ('COMMIT', 'ROLLBACK', 'START') else 'UNKNOWN'

    def create_table(self, depth):
        rng = self.rng
        self.kw('CREATE', 'opt')
        self.kw('TABLE')
        if rng.random() < 0.2:
            self.kw('IF')
            self.kw('NOT')
            self.kw('EXISTS')
        self.colref(ctx='ddl')
        o = self.open_paren('req')
        for k in range(rng.randint(1, 4)):
            if k:
                self.punct(',', 'opt')
            self.name_token(self.g(), allow_quoted=False)
            if rng.random() < 0.15:
                self.kw('DOUBLE PRECISION')      # a two-word type name
            else:
                self.emit('name', rng.choice(TYPE_POOL), 'req')
            x = rng.random()
            if x < 0.25:
                self.kw('NOT NULL')
            elif x < 0.4:
                self.kw('DEFAULT')
                self.number('req')
            elif x < 0.5:
                self.kw('PRIMARY KEY')
        self.close_paren(o)

    def create_view(self, depth):
        rng = self.rng
        self.emit('kw', rng.choice(['CREATE', 'CREATE OR REPLACE']), 'opt')
        t = self.s.toks[-1]
        t.words = t.text.split() if ' ' in t.text else None
        self.kw('VIEW')
        self.colref(ctx='ddl')
        self.kw('AS')
        self.select_core(max(depth - 1, 0), top=True)

    def create_table_as(self, depth):
        self.kw('CREATE', 'opt')
        self.kw('TABLE')
        self.colref(ctx='ddl')
        self.kw('AS')
        if self.rng.random() < 0.3:
            o = self.open_paren('req')
            self.select_core(max(depth, 1), top=True)
            self.close_paren(o)
        else:
            self.select_core(max(depth, 1), top=True)

    def create_index(self, depth):
        self.kw('CREATE', 'opt')
        self.kw('INDEX')
        self.name_token('req', allow_quoted=False)
        self.kw('ON')
        self.name_token('req', allow_quoted=False)
        o = self.open_paren('req')
        for k in range(self.rng.randint(1, 3)):
            if k:
                self.punct(',', 'opt')
            self.name_token(self.g(), allow_quoted=False)
        self.close_paren(o)

    def drop_stmt(self, depth):
        self.kw('DROP', 'opt')
        self.kw(self.rng.choice(['TABLE', 'VIEW', 'INDEX']))
        if self.rng.random() < 0.25:
            self.kw('IF')
            self.kw('EXISTS')
        self.colref(ctx='ddl')

    def alter_stmt(self, depth):
        self.kw('ALTER', 'opt')
        self.kw('TABLE')
        self.colref(ctx='ddl')
        self.kw('ADD')
        self.name_token('req', allow_quoted=False)
        self.emit('name', self.rng.choice(TYPE_POOL), 'req')
        if self.rng.random() < 0.4:
            # a call in a non-CREATE statement that carries the word TABLE
            self.kw('DEFAULT')
            self.call(0, 'req')

    def with_stmt(self, depth):
        rng = self.rng
        self.kw('WITH', 'opt')
        if rng.random() < 0.15:
            self.kw('RECURSIVE')
        for k in range(rng.choice([1, 1, 2])):
            if k:
                self.punct(',', 'opt')
            # comments inside a CTE header (name, AS) can make get_type()
            # answer UNKNOWN (DESIGN §7 N2): whitespace only there
            self.name_token('req!', allow_quoted=rng.random() < 0.3)
            if rng.random() < 0.25:
                # column list of the CTE: name(a, b) AS (...)
                o = self.punct('(', rng.choice(['none', 'none', 'req!']))
                for j in range(rng.choice([1, 2, 3])):
                    if j:
                        self.punct(',', 'none')
                    self.emit('name', self.plain_name(),
                              'none' if j == 0 else rng.choice(['none',
                                                                'req!']))
                self.punct(')', 'none')
            self.kw('AS', 'req!')
            # 'req!': whitespace only -- a comment between AS and the CTE's
            # parenthesis makes get_type() answer UNKNOWN (DESIGN §7 N2)
            o = self.open_paren('req!')
            self.select_core(max(depth - 1, 0), scalar=False)
            self.close_paren(o)
        x = rng.random()
        if x < 0.7 or not self.cfg.dml:
            self.select_core(max(depth - 1, 0), top=True)
            return 'SELECT'
        if x < 0.8:
            self.insert_stmt(max(depth - 1, 0))
            self.s.toks[self._fix_gap()].gap = 'req'
            return 'INSERT'
        if x < 0.9:
            self.update_stmt(max(depth - 1, 0))
            self.s.toks[self._fix_gap()].gap = 'req'
            return 'UPDATE'
        self.delete_stmt(max(depth - 1, 0))
        self.s.toks[self._fix_gap()].gap = 'req'
        return 'DELETE'

    def _fix_gap(self):
        # index of the DML keyword emitted after the CTE list with gap 'opt'
        for i in range(len(self.s.toks) - 1, -1, -1):
            t = self.s.toks[i]
            if t.kind == 'kw' and t.text in ('INSERT', 'UPDATE', 'DELETE') \
                    and t.gap == 'opt':
                return i
        return 0

    # ------------------------------------------------------------ entry
    def statement(self, kind=None, depth=None):
        rng, cfg = self.rng, self.cfg
        self.s = Stmt()
        depth = min(cfg.max_depth, rng.choice([1, 1, 2, 2, 3])) \
            if depth is None else depth
        if kind is None:
            kinds = ['select'] * 10
            if cfg.dml:
                kinds += ['insert', 'insert', 'update', 'update', 'delete']
            if cfg.ddl:
                kinds += ['create_table', 'create_view', 'create_index',
                          'drop', 'alter', 'create_table_as']
            if cfg.ctes:
                kinds += ['with', 'with']
            if cfg.transactions:
                kinds += ['transaction']
            kind = rng.choice(kinds)
        s = self.s
        s.kind = kind
        if kind == 'select':
            self.select_stmt(depth)
            s.leading, s.stype = 'SELECT', 'SELECT'
        elif kind == 'insert':
            self.insert_stmt(depth)
            s.leading, s.stype = 'INSERT', 'INSERT'
        elif kind == 'update':
            self.update_stmt(depth)
            s.leading, s.stype = 'UPDATE', 'UPDATE'
        elif kind == 'delete':
            self.delete_stmt(depth)
            s.leading, s.stype = 'DELETE', 'DELETE'
        elif kind == 'create_table':
            self.create_table(depth)
            s.leading, s.stype = 'CREATE', 'CREATE'
        elif kind == 'create_view':
            self.create_view(depth)
            s.leading = s.toks[0].text
            s.stype = s.toks[0].text
        elif kind == 'create_index':
            self.create_index(depth)
            s.leading, s.stype = 'CREATE', 'CREATE'
        elif kind == 'create_table_as':
            self.create_table_as(depth)
            s.leading, s.stype = 'CREATE', 'CREATE'
        elif kind == 'drop':
            self.drop_stmt(depth)
            s.leading, s.stype = 'DROP', 'DROP'
        elif kind == 'alter':
            self.alter_stmt(depth)
            s.leading, s.stype = 'ALTER', 'ALTER'
        elif kind == 'with':
            s.stype = self.with_stmt(depth)
            s.leading = 'WITH'
        elif kind == 'transaction':
            s.stype = self.transaction_stmt(depth)
            s.leading = s.toks[0].text
        else:
            raise ValueError(kind)
        s.toks[0].gap = 'opt'
        return s


# ---------------------------------------------------------------------------
# layout
WS_CHOICES = [' ', ' ', ' ', ' ', '  ', '\t', '\n', '\r\n', '\n  ', '\n\n',
              ' \n', '\r']
WS_SIMPLE = [' ']


class Layout:
    """How a derivation is spelled. All randomness from `rng`."""

    def __init__(self, rng, ws='mixed', comments=0.0, kwcase='upper',
                 inner='single', hints=False, comment_quotes=False,
                 sl_comments=True):
        self.rng = rng
        self.ws = ws                  # 'single' | 'mixed'
        self.comments = comments      # probability per eligible gap
        self.kwcase = kwcase          # 'upper'|'lower'|'asis'|'random'|'mixed'
        self.inner = inner            # 'single' | 'mixed'
        self.hints = hints
        self.comment_quotes = comment_quotes
        self.sl_comments = sl_comments
        # '# ' with an empty body is known finding D25 (the serializer strips
        # the blank that makes '#' a comment opener)
        self.empty_hash_comments = False
        self.comment_log = []

    def comment(self):
        c = self._comment()
        self.comment_log.append(c)
        return c

    def take_comments(self):
        c, self.comment_log = self.comment_log, []
        return c

    def one_ws(self):
        if self.ws == 'single':
            return ' '
        w = self.rng.choice(WS_CHOICES)
        if self.rng.random() < 0.12:
            # a longer run (indentation, blank lines)
            w += ''.join(self.rng.choice([' ', ' ', '  ', '\t', '\n', '    '])
                         for _ in range(self.rng.randint(1, 4)))
        return w

    def _comment(self):
        rng = self.rng
        body = rng.choice(COMMENT_BODIES)
        if self.comment_quotes and rng.random() < 0.5:
            body += rng.choice(["'", '"', "it's", '"x'])
        hint = self.hints and rng.random() < 0.25
        if self.sl_comments and rng.random() < 0.4:
            body = body.replace('\n', ' ')
            # MySQL style '# ' comments (the blank belongs to the opener)
            opener = '# ' if rng.random() < 0.2 and (
                body.strip() or self.empty_hash_comments) else '--'
            return (opener + ('+' if hint else '')
                    + (' ' if not hint or rng.random() < 0.5 else '') + body
                    + rng.choice(['\n', '\n', '\r\n']))
        if body.startswith('+') and not hint:
            body = ' ' + body
        if rng.random() < 0.15:
            body = body + '\n' + rng.choice(COMMENT_BODIES)
        body = body.replace('*/', '* /')
        return '/*' + ('+' if hint else ' ' if rng.random() < 0.7 else '') \
            + body + (' ' if rng.random() < 0.7 else '') + '*/'

    def gap(self, cls, first=False, after_op=False):
        """Text for one inter-token gap. after_op: the previous token is
        an operator; the lexer fuses operator characters greedily ('%--',
        '//*'), so a comment must not follow it directly."""
        rng = self.rng
        if cls == 'none':
            return ''
        if cls == 'nl!':                 # starts with a line break or a tab
            return rng.choice(['\n', '\n', '\r\n', '\r', '\t', '\n  ', '\n\t',
                               '\n\n'])
        if cls.endswith('!'):            # whitespace only, never a comment
            return self.one_ws()
        parts = []
        ncom = 0
        if self.comments and rng.random() < self.comments:
            ncom = 1 if rng.random() < 0.85 else 2
        if ncom == 0:
            if cls == 'req':
                return self.one_ws()
            return '' if rng.random() < 0.5 else self.one_ws()
        for k in range(ncom):
            c = self.comment()
            # '#' would fuse with a preceding word / operator character
            if rng.random() < 0.7 or (after_op and k == 0) \
                    or (c.startswith('#') and k == 0):
                parts.append(self.one_ws())
            parts.append(c)
        if rng.random() < 0.7:
            parts.append(self.one_ws())
        return ''.join(parts)

    def kwtext(self, tok):
        rng = self.rng
        words = tok.words or [tok.text]
        out = []
        for w in words:
            mode = self.kwcase
            if w.startswith("'"):
                mode = 'asis'          # a literal inside a keyword token
            if mode == 'mixed':
                mode = rng.choice(['upper', 'lower', 'random', 'cap'])
            if mode == 'upper':
                w = w.upper()
            elif mode == 'lower':
                w = w.lower()
            elif mode == 'cap':
                w = w.capitalize()
            elif mode == 'random':
                w = ''.join(c.upper() if rng.random() < 0.5 else c.lower()
                            for c in w)
            out.append(w)
        if len(out) == 1:
            return out[0]
        if self.inner == 'single':
            return ' '.join(out)
        res = out[0]
        for w in out[1:]:
            res += rng.choice([' ', '  ', '\t', '\n', ' \n ', '\r\n']) + w
        return res


class Rendered:
    def __init__(self):
        self.text = ''
        self.spans = []        # per statement: list of (start,end) per token
        self.stmt_spans = []   # (start of first token, end of last token)
        self.sep_spans = []    # separator region after statement i
        self.gaps = []         # per statement: gap text before each token


def render_statement(stmt, layout, out, gaps=None, gap_presence=None):
    """Append the statement's text to list `out` (chunks); return
    (spans, gaps_used). `gaps` replays recorded gap texts. `gap_presence`
    (list of bool) forces emptiness of 'opt' gaps as in another rendering."""
    spans = []
    used = []
    pos = sum(len(c) for c in out)
    for i, tok in enumerate(stmt.toks):
        if i == 0:
            g = ''
        elif gaps is not None:
            g = gaps[i]
        else:
            g = layout.gap(tok.gap,
                           after_op=stmt.toks[i - 1].kind in ('op', 'cmp'))
            if gap_presence is not None and tok.gap == 'opt':
                if not gap_presence[i]:
                    g = ''
                elif g == '':
                    g = layout.one_ws()
        used.append(g)
        if tok.kind in ('kw',) or (tok.kind == 'cmp' and tok.text[0].isalpha()):
            text = layout.kwtext(tok)
        else:
            text = tok.text
        out.append(g)
        pos += len(g)
        out.append(text)
        spans.append((pos, pos + len(text)))
        pos += len(text)
    return spans, used


def separator(layout, rng, final=False, allow_comments=True):
    """Text between `;` and the next statement: whitespace and comments."""
    parts = []
    n = rng.choice([0, 1, 1, 1, 2, 3])
    for _ in range(n):
        x = rng.random()
        if x < 0.6 or not allow_comments:
            parts.append(layout.one_ws())
        elif x < 0.8:
            parts.append(layout.comment())
        else:
            parts.append(rng.choice(['\n', '\r\n', ' ']))
    if not final and not parts:
        parts.append(rng.choice(['', ' ', '\n']))
    return ''.join(parts)


def _locate(chunk, base, comments, sink):
    """chunk consists of whitespace and the given comments, in order."""
    pos = 0
    for c in comments:
        j = chunk.find(c, pos)
        if j < 0:
            return
        sink.append((base + j, base + j + len(c)))
        pos = j + len(c)


class Script:
    """A rendered multi-statement script with all derivation spans."""

    def __init__(self, stmts, layout, rng, sep_comments=True,
                 final_semicolon=None, semi_gap=True, tail_comments=False):
        self.stmts = stmts
        out = []
        self.tok_spans = []
        self.stmt_spans = []
        self.semis = []
        self.gaps = []
        k = len(stmts)
        self.comment_spans = []
        layout.take_comments()
        lead = rng.choice(['', '', ' ', '\n', '  \n'])
        if sep_comments and layout.comments and rng.random() < 0.15:
            lead += layout.comment() + rng.choice(['', ' ', '\n'])
        _locate(lead, 0, layout.take_comments(), self.comment_spans)
        out.append(lead)
        for i, st in enumerate(stmts):
            spans, used = render_statement(st, layout, out)
            self.tok_spans.append(spans)
            self.gaps.append(used)
            coms = layout.take_comments()
            ci = 0
            for ti, gtext in enumerate(used):
                n = 0
                # comments of this gap: consume as many as occur in it
                pos = 0
                base = spans[ti][0] - len(gtext)
                while ci < len(coms):
                    j = gtext.find(coms[ci], pos)
                    if j < 0:
                        break
                    self.comment_spans.append((base + j,
                                               base + j + len(coms[ci])))
                    pos = j + len(coms[ci])
                    ci += 1
            last = i == k - 1
            fs = final_semicolon if final_semicolon is not None \
                else rng.random() < 0.6
            if not last or fs:
                if semi_gap and rng.random() < 0.2:
                    out.append(layout.one_ws())
                pos = sum(len(c) for c in out)
                out.append(';')
                self.semis.append(pos)
                end = pos + 1
            else:
                self.semis.append(None)
                end = spans[-1][1]
            self.stmt_spans.append((spans[0][0], end))
            if not last:
                sep = separator(layout, rng, allow_comments=sep_comments)
                _locate(sep, sum(len(c) for c in out),
                        layout.take_comments(), self.comment_spans)
                out.append(sep)
            else:
                tail = rng.choice(['', '', '\n', ' ', ' \n\n'])
                if tail_comments and layout.comments and rng.random() < 0.35:
                    # comments behind the last statement (same line or own
                    # line); a block comment there is a statement of its own
                    c = layout.comment()
                    pre = rng.choice(['', ' ', '\n', '\n\n'])
                    if c.startswith('#') and not pre:
                        pre = ' '      # '#' would fuse with a word before it
                    tail = pre + c + rng.choice(['', '\n', ' '])
                    if rng.random() < 0.3:
                        tail += layout.comment()
                    _locate(tail, sum(len(c) for c in out),
                            layout.take_comments(), self.comment_spans)
                out.append(tail)
        self.text = ''.join(out)

    def regions(self):
        """Opaque regions from the derivation: (kind, start, end) with the
        delimiters included."""
        out = []
        for si, st in enumerate(self.stmts):
            spans = self.tok_spans[si]
            for ti, t in enumerate(st.toks):
                if t.kind in ('str', 'qname', 'bname', 'dollar'):
                    out.append((t.kind, spans[ti][0], spans[ti][1]))
            for o, c in st.parens:
                out.append(('paren', spans[o][0], spans[c][1]))
        for a, b in self.comment_spans:
            kind = 'comment_ml' if self.text.startswith('/*', a) \
                else 'comment_sl'
            out.append((kind, a, b))
        return out

    def features(self):
        f = set()
        for s in self.stmts:
            f |= s.features
            f.add(s.kind)
        return f


def make_script(rng, cfg=None, nstmts=None, layout=None, **kw):
    gen = Gen(rng, cfg)
    n = nstmts if nstmts is not None else rng.choice([1, 1, 1, 2, 2, 3, 4])
    stmts = [gen.statement() for _ in range(n)]
    layout = layout or Layout(rng)
    return Script(stmts, layout, rng, **kw)
