"""Monitors installed on the real sqlparse classes from the harness.

All hooks are best effort: if a target does not exist (renamed by a
refactoring) the hook is skipped and listed in STATE.unavailable; verdicts
are decided by the end-to-end oracles at the public surface, the hooks add
localisation and event counts (M-LEX additionally provides the recorded
lexer stream that C03 compares tree leaves with).
"""
import functools

try:
    import icontract
except Exception:      # pragma: no cover
    icontract = None

from sqlparse import tokens as T


class State:
    def __init__(self):
        self.lex_streams = []      # one list of (ttype, value) per call
        self.lex_calls = 0
        self.split_events = 0
        self.grp_calls = 0
        self.grp_checked = 0
        self.pass_calls = {}
        self.pass_groups = {}
        self.hook_violations = []  # (hook, detail)
        self.unavailable = []
        self.installed = []
        self.contracts = 'none'

    def drain_violations(self):
        v, self.hook_violations = self.hook_violations, []
        return v

    def reset_streams(self):
        self.lex_streams = []


STATE = State()
MAX_LEAVES_FOR_CONTRACT = 400


def _viol(hook, detail):
    if len(STATE.hook_violations) < 50:
        STATE.hook_violations.append((hook, detail))


# --------------------------------------------------------------------------
# M-LEX
def install_lex_tee():
    from sqlparse import lexer
    cls = getattr(lexer, 'Lexer', None)
    orig = getattr(cls, 'get_tokens', None) if cls else None
    if orig is None:
        STATE.unavailable.append('M-LEX (Lexer.get_tokens)')
        return False
    if getattr(orig, '_verif_tee', False):
        return True

    @functools.wraps(orig)
    def get_tokens(self, *a, **kw):
        rec = []
        STATE.lex_streams.append(rec)
        STATE.lex_calls += 1
        for item in orig(self, *a, **kw):
            rec.append(item)
            yield item
    get_tokens._verif_tee = True
    cls.get_tokens = get_tokens
    STATE.installed.append('M-LEX')
    return True


# --------------------------------------------------------------------------
# M-SPLIT
def install_split_monitor():
    try:
        from sqlparse.engine import statement_splitter as ss
        cls = ss.StatementSplitter
        orig = cls.process
    except Exception:
        STATE.unavailable.append('M-SPLIT (StatementSplitter.process)')
        return False
    if getattr(orig, '_verif', False):
        return True

    @functools.wraps(orig)
    def process(self, stream):
        seen = []

        def tee():
            for item in stream:
                seen.append(item)
                yield item
        placed = 0
        for stmt in orig(self, tee()):
            STATE.split_events += 1
            try:
                toks = stmt.tokens
                for t in toks:
                    if placed >= len(seen):
                        _viol('M-SPLIT', 'statement holds more tokens than '
                              'the lexer delivered')
                        break
                    tt, v = seen[placed]
                    if t.value != v or t.ttype is not tt:
                        _viol('M-SPLIT', 'token %d placed as %r/%s, lexer '
                              'delivered %r/%s' % (placed, t.value[:30],
                                                   t.ttype, v[:30], tt))
                        break
                    placed += 1
                if not toks:
                    _viol('M-SPLIT', 'empty statement yielded')
            except Exception as exc:   # monitor must not disturb the run
                _viol('M-SPLIT', 'monitor error %r' % (exc,))
            yield stmt
        rest = seen[placed:]
        bad = [(tt, v) for tt, v in rest if tt not in T.Whitespace]
        if bad:
            _viol('M-SPLIT', '%d non-whitespace token(s) delivered by the '
                  'lexer were placed in no statement, first %r'
                  % (len(bad), bad[0][1][:30]))
    process._verif = True
    cls.process = process
    STATE.installed.append('M-SPLIT')
    return True


# --------------------------------------------------------------------------
# M-GRP: contracts on TokenList.group_tokens / insert_before / insert_after
def _leaf_ids(node, limit=MAX_LEAVES_FOR_CONTRACT):
    out = []
    stack = [node]
    while stack:
        n = stack.pop()
        if getattr(n, 'is_group', False):
            stack.extend(reversed(n.tokens))
        else:
            out.append(id(n))
            if len(out) > limit:
                return None
    return out


def _snap_leaves(self):
    return _leaf_ids(self)


def _snap_count(self):
    return len(self.tokens)


def _group_tokens_post(self, result, OLD):
    STATE.grp_calls += 1
    try:
        if OLD.leaves is None:
            return True
        STATE.grp_checked += 1
        now = _leaf_ids(self)
        if now != OLD.leaves:
            _viol('M-GRP', 'group_tokens changed the leaf sequence of %s '
                  '(%d leaves before, %s after)' % (
                      type(self).__name__, len(OLD.leaves),
                      len(now) if now is not None else '?'))
        if result is None or not getattr(result, 'is_group', False):
            _viol('M-GRP', 'group_tokens returned %r' % (result,))
            return True
        if not result.tokens:
            _viol('M-GRP', 'group_tokens produced an empty %s'
                  % type(result).__name__)
        n = sum(1 for t in self.tokens if t is result)
        if n != 1:
            _viol('M-GRP', 'new %s occurs %d times in its parent'
                  % (type(result).__name__, n))
        if result.parent is not self:
            _viol('M-GRP', 'new %s has parent %r, expected the list it was '
                  'put into' % (type(result).__name__, result.parent))
        for c in result.tokens:
            if c.parent is not result:
                _viol('M-GRP', 'child %r of new %s keeps parent %r'
                      % (c.value[:20], type(result).__name__,
                         type(c.parent).__name__ if c.parent is not None
                         else None))
                break
        if result.value != str(result):
            _viol('M-GRP', 'value of %s is stale: %r vs %r' % (
                type(result).__name__, result.value[:40],
                str(result)[:40]))
    except Exception as exc:
        _viol('M-GRP', 'monitor error %r' % (exc,))
    return True


def _insert_post(self, token, OLD):
    try:
        if len(self.tokens) != OLD.count + 1:
            _viol('M-GRP', 'insert changed the child count by %d'
                  % (len(self.tokens) - OLD.count))
        elif token.parent is not self:
            _viol('M-GRP', 'inserted token has parent %r' % (token.parent,))
        elif sum(1 for t in self.tokens if t is token) != 1:
            _viol('M-GRP', 'inserted token occurs != 1 times')
    except Exception as exc:
        _viol('M-GRP', 'monitor error %r' % (exc,))
    return True


class ContractBroken(Exception):
    pass


def install_group_contracts():
    from sqlparse import sql
    cls = getattr(sql, 'TokenList', None)
    if cls is None or not hasattr(cls, 'group_tokens'):
        STATE.unavailable.append('M-GRP (TokenList.group_tokens)')
        return False
    if getattr(cls.group_tokens, '_verif', False):
        return True
    if icontract is not None:
        try:
            gt = icontract.snapshot(_snap_leaves, name='leaves')(
                icontract.ensure(_group_tokens_post, error=ContractBroken)(
                    cls.group_tokens))
            gt._verif = True
            cls.group_tokens = gt
            for name in ('insert_before', 'insert_after'):
                if hasattr(cls, name):
                    f = icontract.snapshot(_snap_count, name='count')(
                        icontract.ensure(_insert_post, error=ContractBroken)(
                            getattr(cls, name)))
                    setattr(cls, name, f)
            STATE.contracts = 'icontract'
            STATE.installed.append('M-GRP(icontract)')
            return True
        except Exception as exc:
            STATE.unavailable.append('icontract failed: %r' % (exc,))
    # hand-written fallback with the same conditions
    orig = cls.group_tokens

    class _Old:
        pass

    @functools.wraps(orig)
    def group_tokens(self, *a, **kw):
        old = _Old()
        old.leaves = _leaf_ids(self)
        result = orig(self, *a, **kw)
        _group_tokens_post(self, result, old)
        return result
    group_tokens._verif = True
    cls.group_tokens = group_tokens
    STATE.contracts = 'hand-written'
    STATE.installed.append('M-GRP(hand-written)')
    return True


# --------------------------------------------------------------------------
# M-PASS: every pass that grouping.group() runs keeps the leaf sequence
def install_pass_monitors():
    try:
        from sqlparse.engine import grouping
        names = [n for n in grouping.group.__code__.co_names
                 if callable(getattr(grouping, n, None))
                 and str(getattr(getattr(grouping, n), '__module__', ''))
                 .startswith('sqlparse') and n != 'group'
                 and not isinstance(getattr(grouping, n), type)]
    except Exception:
        STATE.unavailable.append('M-PASS (grouping.group)')
        return False
    if not names:
        STATE.unavailable.append('M-PASS (no pass functions found)')
        return False
    for name in names:
        orig = getattr(grouping, name)
        if getattr(orig, '_verif', False):
            continue
        setattr(grouping, name, _wrap_pass(name, orig))
    STATE.installed.append('M-PASS(%d passes)' % len(names))
    return True


def _wrap_pass(name, orig):
    @functools.wraps(orig)
    def wrapper(stmt, *a, **kw):
        before = _leaf_ids(stmt)
        r = orig(stmt, *a, **kw)
        STATE.pass_calls[name] = STATE.pass_calls.get(name, 0) + 1
        if before is not None:
            after = _leaf_ids(stmt)
            if after != before:
                _viol('M-PASS', 'pass %s changed the leaf sequence (%d -> %s '
                      'leaves)' % (name, len(before),
                                   len(after) if after is not None else '?'))
        return r
    wrapper._verif = True
    return wrapper


def install_all():
    install_lex_tee()
    install_split_monitor()
    install_group_contracts()
    install_pass_monitors()
    return STATE
