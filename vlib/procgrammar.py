"""Procedural grammar (C17): CREATE [OR REPLACE] FUNCTION|PROCEDURE|TRIGGER
with a BEGIN ... END body, surrounded by plain statements.

script(clean) -> (text, expected pieces, set of trigger labels)

The *clean* sub-grammar uses only constructs the split-level protocol
handles; the labelled trigger constructs are the known finding D17 (one
label per construct)."""
from vlib import grammar

TRIGGERS = ['for-loop', 'while-loop', 'end-case', 'declare-section',
            'if-exists', 'for-update', 'cursor-for', 'repeat', 'nested-case']


class ProcGen:
    def __init__(self, rng):
        self.rng = rng
        cfg = grammar.Config(case=False, ddl=False, ctes=False, dollar=False,
                             max_depth=1, typed_literals=False)
        self.gen = grammar.Gen(rng, cfg)
        self.plain = grammar.Gen(rng, grammar.Config(max_depth=2))

    # -- helpers -------------------------------------------------------------
    def kw(self, w):
        if ' ' in w:
            # multi-word keyword: every inner whitespace spelling
            inner = self.rng.choice([' ', ' ', '  ', '\t', '\n', ' \n ',
                                     '\r\n'])
            return inner.join(self.kw(x) for x in w.split())
        r = self.rng.random()
        if r < 0.5:
            return w.upper()
        if r < 0.85:
            return w.lower()
        return ''.join(c.upper() if self.rng.random() < 0.5 else c.lower()
                       for c in w)

    def ws(self):
        return self.rng.choice([' ', ' ', '\n', '\n  ', '  ', '\t', '\r\n'])

    def name(self):
        return self.gen.plain_name()

    def join(self, parts):
        out = []
        for p in parts:
            if out and p not in (';', ',', ')') and out[-1] != '(':
                out.append(self.ws())
            out.append(p)
        return ''.join(out)

    def render_stmt(self, gen, kind=None):
        st = gen.statement(kind)
        layout = grammar.Layout(self.rng, ws=self.rng.choice(
            ['single', 'mixed']), comments=self.rng.choice([0, 0, 0.05]),
            kwcase=self.rng.choice(['upper', 'lower', 'mixed']))
        out = []
        grammar.render_statement(st, layout, out)
        return ''.join(out)

    def cond(self):
        a, b = self.name(), self.rng.choice(['1', "'x'", self.name()])
        return '%s %s %s' % (a, self.rng.choice(['=', '>', '<', '<>']), b)

    # -- body items ------------------------------------------------------------
    def simple(self):
        rng = self.rng
        x = rng.random()
        if x < 0.08:
            # DDL inside a body (no IF EXISTS: known finding D17-if-exists)
            what = rng.choice([['truncate', 'table'], ['drop', 'table'],
                               ['drop', 'view'], ['alter', 'table']])
            parts = [self.kw(w) for w in what] + [self.name()]
            if what[0] == 'alter':
                parts += [self.kw('add'), self.name(), 'int']
            return self.join(parts) + ';'
        if x < 0.30:
            return self.render_stmt(self.gen, rng.choice(
                ['select', 'insert', 'update', 'delete'])) + ';'
        if x < 0.35:
            # DO that opens no loop: PostgreSQL's ON CONFLICT ... DO
            # NOTHING | DO UPDATE, MySQL's DO expr
            y = rng.random()
            if y < 0.7:
                parts = [self.kw('insert'), self.kw('into'), self.name(),
                         self.kw('values'), '(1, %s)' % rng.choice(
                             ["'x'", '2', self.name()]),
                         self.kw('on'), self.kw('conflict'),
                         '(%s)' % self.name(), self.kw('do')]
                if y < 0.35:
                    parts += [self.kw('nothing')]
                else:
                    parts += [self.kw('update'), self.kw('set'), self.name(),
                              '=', rng.choice(['1', "'do'", self.name()])]
                return self.join(parts) + ';'
            return self.join([self.kw('do'), rng.choice(
                ['sleep(1)', '1', "release_lock('a')",
                 self.name() + ' + 1'])]) + ';'
        if x < 0.42:
            return self.join([self.kw('set'), self.name(), '=',
                              rng.choice(['1', "'end;'", "'begin'",
                                          self.name() + ' + 1'])]) + ';'
        if x < 0.46:
            # function calls whose names are block keywords elsewhere: a
            # word directly before ( is a name for the lexer
            f = rng.choice(['if', 'IF', 'If', 'left', 'replace', 'coalesce'])
            call = '%s(%s, %s, %s)' % (f, self.cond(), rng.choice(
                ["'p'", '1', self.name()]), rng.choice(["'f'", '0']))
            if rng.random() < 0.5:
                return self.join([self.kw('set'), self.name(), '=',
                                  call]) + ';'
            return self.join([self.kw('select'), call, self.kw('into'),
                              self.name()]) + ';'
        if x < 0.5:
            # qualified names whose last part is spelled like a block keyword
            # (a word behind a period is a name for the lexer)
            q = '%s.%s' % (rng.choice(['NEW', 'OLD', 'new', 'r', 't1']),
                           rng.choice(['end', 'begin', 'loop', 'if', 'END',
                                       'declare', 'while', 'for', 'Begin']))
            if rng.random() < 0.5:
                return self.join([self.kw('set'), self.name(), '=', q]) + ';'
            return self.join([self.kw('select'), q, self.kw('into'),
                              self.name(), self.kw('from'), self.name(),
                              self.kw('where'), q, '=', '1']) + ';'
        if x < 0.6:
            return '%s := %s;' % (self.name(), rng.choice(['1', 'a + b',
                                                           "'x;y'"]))
        if x < 0.7:
            return self.join([self.kw('return'), rng.choice(
                ['1', self.name(), 'null'])]) + ';'
        if x < 0.8:
            # CASE expression (not nested)
            return self.join([self.kw('set'), self.name(), '=',
                              self.kw('case'), self.kw('when'), self.cond(),
                              self.kw('then'), "'a'", self.kw('else'), "'b'",
                              self.kw('end')]) + ';'
        if x < 0.9:
            return self.join([self.kw('select'), self.name(),
                              self.kw('into'), self.name(), self.kw('from'),
                              self.name(), self.kw('where'), self.cond()]) \
                + ';' + rng.choice(['', ' -- end;\n', ' /* begin; end; */'])
        return self.join([self.kw('declare'), self.name(),
                          rng.choice(['int', 'varchar(10)', 'text'])]) + ';'

    def items(self, depth, clean, trig):
        rng = self.rng
        n = rng.randint(1, 4)
        return self.ws().join(self.item(depth, clean, trig)
                              for _ in range(n))

    def item(self, depth, clean, trig):
        rng = self.rng
        x = rng.random()
        if depth <= 0 or x < 0.5:
            if not clean and rng.random() < 0.12:
                return self.trigger_simple(trig)
            return self.simple()
        d = depth - 1
        if x < 0.6:
            return self.join([self.kw('begin'), self.items(d, clean, trig),
                              self.kw('end')]) + ';'
        if x < 0.75:
            parts = [self.kw('if'), self.cond(), self.kw('then'),
                     self.items(d, clean, trig)]
            for _ in range(rng.choice([0, 0, 1, 2])):
                parts += [self.kw('elsif'), self.cond(), self.kw('then'),
                          self.items(d, clean, trig)]
            if rng.random() < 0.5:
                parts += [self.kw('else'), self.items(d, clean, trig)]
            parts += [self.kw('end if')]
            return self.join(parts) + ';'
        if x < 0.83:
            return self.join([self.kw('while'), self.cond(), self.kw('do'),
                              self.items(d, clean, trig),
                              self.kw('end while')]) + ';'
        if x < 0.9:
            return self.join([self.kw('loop'), self.items(d, clean, trig),
                              self.kw('end loop')]) + ';'
        if clean:
            return self.simple()
        return self.trigger_block(d, trig)

    def trigger_simple(self, trig):
        rng = self.rng
        x = rng.random()
        if x < 0.3:
            trig.add('if-exists')
            return self.join([self.kw('drop'), self.kw('table'),
                              self.kw('if'), self.kw('exists'),
                              self.name()]) + ';'
        if x < 0.55:
            trig.add('for-update')
            return self.join([self.kw('select'), self.name(), self.kw('from'),
                              self.name(), self.kw('for'),
                              self.kw('update')]) + ';'
        if x < 0.8:
            trig.add('cursor-for')
            return self.join([self.kw('declare'), self.name(),
                              self.kw('cursor'), self.kw('for'),
                              self.kw('select'), self.name(), self.kw('from'),
                              self.name()]) + ';'
        trig.add('nested-case')
        return self.join([self.kw('set'), self.name(), '=', self.kw('case'),
                          self.kw('when'), self.cond(), self.kw('then'),
                          self.kw('case'), self.kw('when'), self.cond(),
                          self.kw('then'), '1', self.kw('end'),
                          self.kw('else'), '2', self.kw('end')]) + ';'

    def trigger_block(self, d, trig):
        rng = self.rng
        x = rng.random()
        if x < 0.3:
            trig.add('for-loop')
            return self.join([self.kw('for'), self.name(), self.kw('in'),
                              '1..10', self.kw('loop'),
                              self.items(d, False, trig),
                              self.kw('end loop')]) + ';'
        if x < 0.55:
            trig.add('while-loop')
            return self.join([self.kw('while'), self.cond(), self.kw('loop'),
                              self.items(d, False, trig),
                              self.kw('end loop')]) + ';'
        if x < 0.8:
            trig.add('end-case')
            return self.join([self.kw('case'), self.name(), self.kw('when'),
                              '1', self.kw('then'),
                              self.items(d, False, trig), self.kw('else'),
                              self.items(d, False, trig), self.kw('end'),
                              self.kw('case')]) + ';'
        trig.add('repeat')
        return self.join([self.kw('repeat'), self.items(d, False, trig),
                          self.kw('until'), self.cond(), self.kw('end'),
                          self.kw('repeat')]) + ';'

    # -- CREATE ... ------------------------------------------------------------
    def create(self, clean, trig):
        rng = self.rng
        what = rng.choice(['function', 'procedure', 'trigger'])
        head = [self.kw(rng.choice(['create', 'create or replace']))]
        if rng.random() < 0.2:
            # a modifier between CREATE and the object kind (mysqldump's
            # DEFINER clause, CONSTRAINT TRIGGER, AGGREGATE FUNCTION, ...)
            mods = [['definer=`root`@`localhost`'],
                    [self.kw('definer'), '=', self.kw('current_user')],
                    [self.kw('definer') + "='admin'@'%'"]]
            mods += {'trigger': [[self.kw('constraint')]],
                     'function': [[self.kw('aggregate')],
                                  [self.kw('temporary')]],
                     'procedure': [[self.kw('editionable')]]}[what]
            head += rng.choice(mods)
        head.append(self.kw(what))
        head.append(self.name())
        if what == 'trigger':
            ev = self.kw(rng.choice(['insert', 'update', 'delete']))
            form = rng.random()
            if form < 0.6:
                head += [self.kw(rng.choice(['before', 'after'])), ev,
                         self.kw('on'), self.name(), self.kw('for'),
                         self.kw('each'), self.kw('row')]
            elif form < 0.7:
                head += [self.kw('instead'), self.kw('of'), ev, self.kw('on'),
                         self.name(), self.kw('for'), self.kw('each'),
                         self.kw('row')]
            elif form < 0.85:
                # Transact-SQL header: ON table FOR|AFTER event[, event] AS
                head += [self.kw('on'), self.name(),
                         self.kw(rng.choice(['for', 'after'])), ev]
                if rng.random() < 0.4:
                    head += [',', self.kw(rng.choice(['insert', 'update',
                                                      'delete']))]
                head += [self.kw('as')]
            else:
                head += [self.kw(rng.choice(['before', 'after'])), ev,
                         self.kw('or'), self.kw('update'), self.kw('on'),
                         self.name(), self.kw('for'), self.kw('each'),
                         self.kw('row')]
        else:
            params = ', '.join('%s %s' % (self.name(), rng.choice(
                ['int', 'varchar(20)', 'text']))
                for _ in range(rng.randint(0, 3)))
            head[-1] = head[-1] + '(' + params + ')'
            if what == 'function':
                head += [self.kw('returns'), rng.choice(['int', 'text'])]
                if rng.random() < 0.2:
                    head += [self.kw(rng.choice(['deterministic',
                                                 'language sql', 'as',
                                                 'is']))]
            elif rng.random() < 0.25:
                head += [self.kw(rng.choice(['as', 'is']))]
        parts = list(head)
        if not clean and rng.random() < 0.2:
            trig.add('declare-section')
            parts += [self.kw('declare'), self.name(), 'int', ';']
        depth = rng.choice([0, 1, 1, 2, 2, 3])
        parts += [self.kw('begin'), self.items(depth, clean, trig),
                  self.kw('end')]
        return self.join(parts) + ';'

    TRANSACTION = ['begin', 'begin transaction', 'commit', 'rollback',
                   'start transaction', 'begin work', 'end', 'commit work',
                   'savepoint sp1']

    def surrounding(self):
        """A plain statement around the CREATE: a grammar statement or a
        transaction-control statement (BEGIN; / COMMIT; / END; ...)."""
        if self.rng.random() < 0.25:
            words = self.rng.choice(self.TRANSACTION).split()
            return self.ws().join(self.kw(w) for w in words) + ';'
        return self.render_stmt(self.plain) + ';'

    def script(self, clean=True):
        """(text, expected pieces, triggers)."""
        rng = self.rng
        trig = set()
        pieces = []
        for _ in range(rng.choice([0, 0, 1, 2, 3])):
            pieces.append(self.surrounding())
        pieces.append(self.create(clean, trig))
        for _ in range(rng.choice([0, 1, 1, 2, 3])):
            pieces.append(self.surrounding())
        text = ''
        for p in pieces:
            text += p + rng.choice([' ', '\n', '\n\n', '  \n', '\r\n'])
        if rng.random() < 0.3:
            text = rng.choice([' ', '\n']) + text
        return text, [p.strip() for p in pieces], trig
