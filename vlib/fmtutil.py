"""Helpers shared by the formatting properties (C06, C08, C10)."""
import re

import sqlparse
from sqlparse import tokens as T

from vlib import grammar, oracles


def script_for_format(rng, comments=None, trigger=None, nstmts=None,
                      cfg=None):
    """A grammar script for the formatter properties. `trigger` selects a
    labelled known-finding class:
      'D8' quote characters inside comments, 'D7' line breaks inside
      backtick / dollar bodies."""
    if comments is None:
        comments = rng.choice([0.0, 0.0, 0.06, 0.15, 0.3])
    layout = grammar.Layout(
        rng, ws=rng.choice(['single', 'mixed', 'mixed']),
        comments=comments,
        kwcase=rng.choice(['upper', 'lower', 'mixed']),
        inner=rng.choice(['single', 'single', 'mixed']),
        hints=rng.random() < 0.4,
        comment_quotes=(trigger == 'D8'))
    n = nstmts if nstmts is not None else rng.choice([1, 1, 1, 2, 3])
    sc = grammar.make_script(rng, cfg, nstmts=n, layout=layout,
                             tail_comments=True)
    return sc


def first_diff(a, b):
    n = min(len(a), len(b))
    for i in range(n):
        if a[i] != b[i]:
            return i
    return n if len(a) != len(b) else None


def describe_diff(a, b, what='token'):
    i = first_diff(a, b)
    if i is None:
        return None
    return ('%s %d differs: input %r vs output %r (lengths %d / %d)'
            % (what, i, _show(a[max(0, i - 1):i + 2]),
               _show(b[max(0, i - 1):i + 2]), len(a), len(b)))


def _show(items):
    return [(str(tt).replace('Token.', ''), v[:30]) for tt, v in items]


_QUOTE_IN_COMMENT = None


def comment_has_quote(text):
    for tt, v in sqlparse.lexer.tokenize(text):
        if tt in T.Comment and ("'" in v or '"' in v):
            return True
    return False


def neutralise_comment_quotes(text):
    out = []
    for tt, v in sqlparse.lexer.tokenize(text):
        if tt in T.Comment:
            v = v.replace("'", '_').replace('"', '_')
        out.append(v)
    return ''.join(out)


def unquoted_region_has_newline_or_trailing_blank(text):
    """D7 trigger: a backtick name or dollar body containing a line break."""
    for tt, v in sqlparse.lexer.tokenize(text):
        if (tt is T.Name and v[:1] in '`´') or tt is T.Literal:
            if '\n' in v or '\r' in v:
                return True
    return False


def count_statements(text):
    """Number of pieces of split() that contain SQL (a piece made only of
    comments -- e.g. a comment behind the last ';' -- is not counted)."""
    n = 0
    for piece in sqlparse.split(text):
        for tt, v in sqlparse.lexer.tokenize(piece):
            if tt not in T.Whitespace and tt not in T.Comment:
                n += 1
                break
    return n
