"""Locate tree nodes by character span (shared by C12 and C13)."""
from vlib import oracles


class Located:
    """Leaf positions and node spans of the statements returned by parse(),
    in the coordinates of the script text."""

    def __init__(self, stmts):
        self.stmts = stmts
        self.leaf_at = {}       # start offset -> leaf
        self.span = {}          # id(node) -> (start, end)
        self.nodes = []
        pos = 0
        for s in stmts:
            # post-order spans, iteratively
            order = []
            stack = [s]
            while stack:
                n = stack.pop()
                order.append(n)
                if getattr(n, 'is_group', False):
                    stack.extend(n.tokens)
            # assign leaf positions in document order
            for leaf in oracles.leaves(s):
                self.leaf_at[pos] = leaf
                self.span[id(leaf)] = (pos, pos + len(leaf.value))
                pos += len(leaf.value)
            for n in reversed(order):
                if getattr(n, 'is_group', False):
                    a = self.span[id(n.tokens[0])][0]
                    b = self.span[id(n.tokens[-1])][1]
                    self.span[id(n)] = (a, b)
            self.nodes.extend(order)

    def ancestors(self, node):
        out = []
        p = node.parent
        while p is not None:
            out.append(p)
            p = p.parent
        return out

    def nodes_with_span(self, a, b, cls=None):
        return [n for n in self.nodes
                if self.span[id(n)] == (a, b)
                and (cls is None or isinstance(n, cls))]

    def text(self, node, script):
        a, b = self.span[id(node)]
        return script[a:b]
