"""Hostile text workloads: char soup, atom enumeration, token soup,
corpus mutation. All randomness comes from the rng passed in."""
import glob
import itertools
import os

from vlib import common

# --------------------------------------------------------------------------
# char soup
ASCII_ALL = [chr(i) for i in range(128)]
SPECIAL_CHARS = list('\'"`´$#;()[],.:?%@\\/*-+=<>!|&^~_ \t\n\r') + [
    '\x00', '\x0b', '\x0c', '\x1c', '\x1d', '\x1e', '\x1f', '\x85', '\xa0',
    ' ', ' ', '　', 'é', 'À', 'Ü', 'ß',
    'İ', 'ı', 'ſ', 'K', 'ﬁ', '́', '​',
    '\ud800', '\udfff', '\U0001f600', '\U00010000', '（', '＇', '\ufeff',
    'é', 'Å', 'Ω',
    '´', '’',
]
MULTI_ATOMS = [
    '--', '-- ', '--+', '/*', '*/', '/*+', '$$', '$a$', '$_x$', "''", '""',
    '``', '# ', '#', '::', ':=', '0x', '1e', '1e-', '.5', '1.', 'END IF',
    'END', 'BEGIN', 'CASE', 'WHEN', 'THEN', 'ELSE', 'DECLARE', 'CREATE',
    'IF', 'FOR', 'LOOP', 'END LOOP', 'GO', 'GO 2', 'AS', 'IN', 'FROM',
    'SELECT', 'WHERE', 'ORDER BY', 'GROUP  BY', 'UNION ALL', 'NOT NULL',
    'NOT\nLIKE', 'LEFT OUTER JOIN', 'JOIN', 'AT TIME ZONE \'x\'',
    'ASC NULLS FIRST', 'DOUBLE PRECISION', '\\', "\\'", '\\"', '%s',
    '%(a)s', ':a', '$1', '?', '@a', '@ab', '##ab', '[a]', '[', ']', 'a.b',
    'a .b', '->', '->>', '#>', '<@', '?|', '?&', '#-', '<=', '!=', '||',
    'x', 'ab', 'a1', '_a', '1a', 'é', 'Àb', 'LATERAL VIEW EXPLODE',
    'HANDLER FOR', 'WITH', 'OVER', 'VALUES', 'NULL', 'null', 'date',
    'TIMESTAMP', 'interval', 'day', '\r\n', '\n\n', '  ', 'a,b', '(', ')',
    '(a', 'a)', "'a'", '"a"', '`a`', "'", '"', '`', ';', ';;', '; ',
]


def char_soup(rng, maxlen=200):
    r = rng.random()
    if r < 0.03:
        n = 0
    elif r < 0.9:
        n = rng.randint(1, 40)
    elif r < 0.995:
        n = rng.randint(40, maxlen)
    else:
        n = rng.randint(1000, 10000)
    mode = rng.random()
    out = []
    for _ in range(n):
        x = rng.random()
        if mode < 0.25:      # mostly special characters and atoms
            if x < 0.55:
                out.append(rng.choice(SPECIAL_CHARS))
            elif x < 0.9:
                out.append(rng.choice(MULTI_ATOMS))
            else:
                out.append(rng.choice(ASCII_ALL))
        elif mode < 0.5:     # any code point
            if x < 0.3:
                out.append(chr(rng.randrange(0x110000)))
            elif x < 0.6:
                out.append(rng.choice(ASCII_ALL))
            elif x < 0.8:
                out.append(rng.choice(SPECIAL_CHARS))
            else:
                out.append(rng.choice(MULTI_ATOMS))
        else:                # SQL-ish text with noise
            if x < 0.5:
                out.append(rng.choice(MULTI_ATOMS))
            elif x < 0.75:
                out.append(' ')
            elif x < 0.9:
                out.append(rng.choice(SPECIAL_CHARS))
            else:
                out.append(rng.choice(ASCII_ALL))
    return ''.join(out)


# --------------------------------------------------------------------------
# atom enumeration (complete for the stated bound)
ENUM_ATOMS = [
    "'", '"', '`', '´', '$$', '$a$', '--', '# ', '#', '/*', '*/', '/*+',
    '--+', '\n', '\r', '\r\n', ' ', ';', '(', ')', '[', ']', ',', '.', ':',
    '::', ':=', '\\', 'a', 'A1', '1', '-', '*', '=', '?', '%s', '@', 'END',
    'IF', '\x00',
]
assert len(ENUM_ATOMS) == 40


def atom_sequences(maxlen):
    for n in range(0, maxlen + 1):
        for seq in itertools.product(ENUM_ATOMS, repeat=n):
            yield ''.join(seq)


def atom_count(maxlen):
    return sum(len(ENUM_ATOMS) ** n for n in range(0, maxlen + 1))


def atom_sequence_at(index):
    """The index-th sequence in atom_sequences order (for sharded walks)."""
    n = 0
    while index >= len(ENUM_ATOMS) ** n:
        index -= len(ENUM_ATOMS) ** n
        n += 1
    seq = []
    for _ in range(n):
        index, r = divmod(index, len(ENUM_ATOMS))
        seq.append(ENUM_ATOMS[r])
    return ''.join(reversed(seq))


# --------------------------------------------------------------------------
# token soup
SOUP_WORDS = [
    'select', 'SELECT', 'from', 'FROM', 'where', 'WHERE', 'and', 'or', 'not',
    'in', 'IN', 'as', 'AS', 'on', 'join', 'left join', 'LEFT OUTER JOIN',
    'group by', 'ORDER BY', 'having', 'limit', 'union', 'UNION ALL',
    'except', 'insert', 'into', 'values', 'VALUES', 'update', 'set', 'delete',
    'create', 'CREATE OR REPLACE', 'table', 'view', 'index', 'drop', 'alter',
    'with', 'WITH', 'recursive', 'case', 'CASE', 'when', 'then', 'else',
    'end', 'END', 'begin', 'BEGIN', 'declare', 'if', 'IF', 'end if',
    'END IF', 'for', 'FOR', 'foreach', 'loop', 'end loop', 'END LOOP',
    'while', 'end while', 'over', 'OVER', 'partition by', 'between', 'like',
    'not like', 'is', 'null', 'NULL', 'not null', 'asc', 'desc',
    'ASC NULLS LAST', 'distinct', 'exists', 'returning', 'function',
    'procedure', 'trigger', 'returns', 'language', 'go', 'GO', 'using',
    'USING', 'date', 'timestamp', 'TIMESTAMP', 'interval', 'day', 'hour',
    'int', 'varchar', 'current_date', 'CURRENT_TIMESTAMP', 'role', 'array',
    'a', 'b', 'c', 't', 'x1', 'foo', 'bar', 'tbl', 'col', 'f', 'count', 'max',
    'Àa', 'äb', '_x',
]
SOUP_PUNCT = ['(', ')', '(', ')', '[', ']', ',', ',', ';', ';', '.', '*',
              '=', '<', '>', '<=', '<>', '!=', '+', '-', '/', '%', '||', '::',
              ':=', ':', '->', '->>', '#>', '@>', '?', '?|', '&', '|', '^',
              '~', '#']
SOUP_LITS = ['1', '0', '42', '1.5', '.5', '1e3', '-1', '0xFF', "'s'", "''",
             "'it''s'", "'a;b'", "'(x'", '"q"', '"a b"', '`bt`', '$$d;$$',
             '$a$ b $a$', '%s', '%(n)s', ':p', '$1', '@v', '?', 'a.b',
             'a.b.c', '"s"."t"', 't.*', 'x::int', "date '2001-01-01'",
             "interval '1' day", "'a' 'b'", '1a', 'é', "'unterminated",
             '"unterminated', 'f(', 'f(x)', 'f(x, y)', '[1]', 'a[1]',
             'a[1][2]']
SOUP_COMMENTS = ['/* c */', '/* ; */', '/*+ h */', '-- c\n', '--+ h\n',
                 '-- ;\n', '# c\n', '/* a\nb */', '/**/', '-- unterminated',
                 '/* unterminated', "-- it's\n", '/* " */']
SOUP_WS = [' ', ' ', ' ', '  ', '\t', '\n', '\r\n', ' \n ', '']


def token_soup(rng, maxitems=16, joiner=None):
    n = rng.randint(1, maxitems)
    items = []
    for _ in range(n):
        x = rng.random()
        if x < 0.45:
            items.append(rng.choice(SOUP_WORDS))
        elif x < 0.72:
            items.append(rng.choice(SOUP_PUNCT))
        elif x < 0.92:
            items.append(rng.choice(SOUP_LITS))
        else:
            items.append(rng.choice(SOUP_COMMENTS))
    mode = rng.random() if joiner is None else 2
    if joiner is not None:
        return joiner.join(items)
    if mode < 0.6:
        return ' '.join(items)
    if mode < 0.75:
        return ''.join(items)
    return ''.join(it + rng.choice(SOUP_WS) for it in items)


# bracket / block keyword soup (C09, C15-like)
BLOCK_ITEMS = ['(', ')', '[', ']', 'case', 'end', 'if', 'end if', 'for',
               'foreach', 'end loop', 'begin', 'loop', 'while', 'when',
               'then', 'else', 'CASE', 'END', 'IF', 'END IF', 'BEGIN']
FILL_ITEMS = ['a', 'b', '1', ',', ';', '=', '::', ':=', 'as', '.', '+',
              'select', 'from', 'where', 'and', "'s'", 'f', 'x', 'in',
              'over', 'values', 'order by', '/* c */', '-- c\n', '*']


def block_soup(rng, maxitems=14):
    n = rng.randint(2, maxitems)
    items = []
    balanced = rng.random() < 0.5
    stack = []
    closers = {'(': ')', '[': ']', 'case': 'end', 'if': 'end if',
               'for': 'end loop', 'foreach': 'end loop', 'begin': 'end'}
    for _ in range(n):
        x = rng.random()
        if x < 0.55:
            if balanced:
                if stack and rng.random() < 0.45:
                    if rng.random() < 0.12:
                        items.append(',')
                    items.append(stack.pop())
                    if rng.random() < 0.15:
                        items += [rng.choice(['/* c */', '-- c\n', '/*+ h */'])
                                  for _ in range(rng.randint(1, 3))]
                else:
                    o = rng.choice(list(closers))
                    if rng.random() < 0.3:
                        o = o.upper()
                    items.append(o)
                    stack.append(closers[o.lower()])
            else:
                items.append(rng.choice(BLOCK_ITEMS))
        else:
            items.append(rng.choice(FILL_ITEMS))
    if balanced:
        while stack:
            if rng.random() < 0.3:
                items.append(rng.choice(FILL_ITEMS))
            items.append(stack.pop())
    return ' '.join(items)


CHAIN_OPERANDS = ['a', 'b', '@v', '@a', '1', "'s'", 'f(1)', '(x)', 't.c', '*',
                  'null', 'x1', '"q"', 'case when a then 1 end', '?', ':p']
CHAIN_MIDDLES = [':=', ':=', ':=', '::', '::', '.', '=', '+', '-', '*', '/', '||', ' as ', ',',
                 ' and ', ' or ', '<', '>=', ' like ', ' in ', ' over ', '%']
CHAIN_PREFIX = ['set', 'select', 'declare', 'x', ',', '1', '(', 'where',
                'from', 'return', '@', 'begin', ';', 'into']


def chain_soup(rng):
    """Chains of operands joined by the 'middle' tokens the generic
    grouping helper works on (:= :: . = + - AS , AND ...), the same middle
    repeated or mixed, unevenly spaced, behind 0-6 other tokens and in
    front of 0-4: aims at the index arithmetic of the grouping passes."""
    out = []
    for _ in range(rng.randint(0, 6)):
        out.append(rng.choice(CHAIN_PREFIX))
        out.append(rng.choice([' ', ' ', '  ', '']))
    same = rng.choice(CHAIN_MIDDLES) if rng.random() < 0.6 else None
    n = rng.randint(2, 6)
    for k in range(n):
        if k:
            m = same if same and rng.random() < 0.85 \
                else rng.choice(CHAIN_MIDDLES)
            sp = rng.choice(['', '', ' ', '  '])
            out.append(sp + m + rng.choice(['', '', ' ', '  ']))
        out.append(rng.choice(CHAIN_OPERANDS))
    out.append(rng.choice([';', ' ;', '', ' ', ')', ' end']))
    for _ in range(rng.randint(0, 4)):
        out.append(' ' + rng.choice(CHAIN_PREFIX + CHAIN_OPERANDS))
    return ''.join(out)


def dangling_soup(rng):
    """Chains like chain_soup's in which an operand may be missing: a
    middle token directly behind another one ('x as ::', 'a . :=') and a
    chain that ends on a middle token, at the end of the text, of a
    statement or of a parenthesis. Aims at accessors and passes that take
    'the token behind the marker' for granted."""
    def chain():
        out = [rng.choice(CHAIN_OPERANDS + ['foo', 'x'])]
        for _ in range(rng.randint(1, 4)):
            out.append(rng.choice(['', ' ', ' ', '  '])
                       + rng.choice(CHAIN_MIDDLES)
                       + rng.choice(['', ' ', ' ']))
            if rng.random() < 0.6:
                out.append(rng.choice(CHAIN_OPERANDS))
        return ''.join(out)
    out = []
    for _ in range(rng.randint(0, 3)):
        out.append(rng.choice(CHAIN_PREFIX) + ' ')
    x = rng.random()
    if x < 0.35:
        out.append(chain())
    elif x < 0.6:
        out.append('(' + chain() + rng.choice([')', ' )', '']))
    elif x < 0.8:
        out.append('a in (select ' + chain() + ')')
    else:
        out.append(chain() + rng.choice([', ', ' , ']) + chain())
    out.append(rng.choice(['', '', ' ', ';', '; select 1', ' from t']))
    return ''.join(out)


def bracket_cross(rng, maxitems=12):
    """Square brackets and parentheses that nest and cross; '[' is written
    directly behind a word character / ']' / ')' so that it is punctuation
    (array index), not the start of an sqlite [name]."""
    n = rng.randint(2, maxitems)
    out = ['select ']
    for _ in range(n):
        x = rng.random()
        last = out[-1][-1:]
        if x < 0.25 and (last.isalnum() or last in '])_'):
            out.append('[')
        elif x < 0.35:
            out.append('a[')
        elif x < 0.5:
            out.append(']')
        elif x < 0.65:
            out.append('(')
        elif x < 0.8:
            out.append(')')
        elif x < 0.9:
            out.append(rng.choice(['a', '1', 'x2', 'f']))
        else:
            out.append(rng.choice([', ', ' ', ' + ', '::', ' as ']))
    return ''.join(out)


# --------------------------------------------------------------------------
# corpus mutation
_corpus = None


def corpus():
    global _corpus
    if _corpus is None:
        _corpus = []
        for path in sorted(glob.glob(os.path.join(common.REPO, 'tests',
                                                  'files', '*.sql'))):
            try:
                with open(path, 'rb') as f:
                    data = f.read()
                try:
                    text = data.decode('utf-8')
                except UnicodeDecodeError:
                    text = data.decode('latin-1')
                if len(text) < 6000:
                    _corpus.append(text)
            except OSError:
                pass
        if not _corpus:
            _corpus = ['select * from foo where bar = 1;\n']
    return _corpus


def mutate_text(rng, text, nmut=None):
    nmut = nmut if nmut is not None else rng.randint(1, 4)
    for _ in range(nmut):
        if not text:
            text = rng.choice(MULTI_ATOMS)
            continue
        op = rng.random()
        i = rng.randrange(len(text))
        j = min(len(text), i + rng.randint(1, 12))
        if op < 0.25:
            text = text[:i] + text[j:]
        elif op < 0.5:
            text = text[:i] + rng.choice(MULTI_ATOMS + SPECIAL_CHARS) \
                + text[i:]
        elif op < 0.65:
            text = text[:i] + text[i:j] * 2 + text[j:]
        elif op < 0.8:
            text = text[:i] + rng.choice(SPECIAL_CHARS) + text[i + 1:]
        elif op < 0.9:
            text = text[:i]
        else:
            k = rng.randrange(len(text))
            a, b = sorted((i, k))
            text = text[:a] + text[b:] + text[a:b]
    return text


def corpus_mutation(rng):
    text = rng.choice(corpus())
    if len(text) > 1500:
        a = rng.randrange(len(text) - 1000)
        text = text[a:a + rng.randint(200, 1000)]
    return mutate_text(rng, text)


def bulk_statement(rng):
    """One statement of 10 000 - 25 000 tokens (bulk INSERT, long IN list,
    long select list): size thresholds and quadratic bookkeeping only show
    on inputs of this size."""
    x = rng.random()
    n = rng.choice([1300, 1700, 2600])
    ws = rng.choice([' ', ' ', '\n', '  '])
    if x < 0.4:
        rows = (',' + ws).join("(%d,%s'name%d')" % (i, rng.choice(['', ' ']),
                                                   i) for i in range(n))
        return 'insert into t (a, b) values ' + rows + ';'
    if x < 0.7:
        items = (',' + ws).join(str(i) for i in range(n * 2))
        return 'select * from t where a in (' + items + ') order by 1;'
    cols = (',' + ws).join('c%d as a%d' % (i, i) for i in range(n))
    return 'select ' + cols + ' from t;' + ' select 2;'


def long_token(rng):
    """A short script in which ONE lexer token (string literal, quoted
    name, comment, dollar-quoted body, number, word) is 3 000 - 70 000
    characters long, around typical buffer sizes: per-token fast paths,
    match windows and skip arithmetic only show on tokens of this size."""
    n = rng.choice([4096, 8192, 16384, 32768, 65536]) \
        + rng.randint(-1100, 1100)
    unit = rng.choice(['x', 'ab ', 'é', "it''s ", 'a;b ', 'line\n', '0',
                       '\U0001f600', 'select ', '-- '])
    body = (unit * (n // len(unit) + 1))[:n]
    x = rng.random()
    if x < 0.3:
        tok = "'" + body.replace("'", "''") + "'"
    elif x < 0.4:
        tok = '"' + body.replace('"', '') + '"'
    elif x < 0.55:
        tok = '/*' + body.replace('*/', '* ') + '*/'
    elif x < 0.65:
        tok = '-- ' + body.replace('\n', ' ') + '\n'
    elif x < 0.8:
        tok = '$q$' + body.replace('$', 'S') + '$q$'
    elif x < 0.9:
        tok = 'n' + ''.join(c for c in body if c.isalnum()) + '_'
    else:
        tok = '1' + '0' * n
    pre = rng.choice(['select ', 'insert into t values (1, ', 'select a, ',
                      'select 1; select ', ''])
    post = rng.choice([' from t;', ') ;', ', b from t; select 2;', '', ';'])
    return pre + tok + post


MANY_UNITS = ['select 1', 'select a, b from t where c = 1',
              "insert into t values (1, 'x;y')", 'commit', 'begin',
              'update t set a = 1 where b = 2 /* c; */',
              'delete from t where a in (1, 2)', 'select $$a;b$$',
              'drop table if exists t', 'create table t (a int, b text)',
              'select case when a then 1 end from t', 'select "a;b" from t',
              'end', 'rollback', 'select 1 -- c;\n']


def many_statements(rng):
    """300 - 3000 short statements in one script: counters, caches and
    buffers that are per statement only show on scripts of this length."""
    n = rng.choice([300, 1100, 3000])
    sep = rng.choice([';\n', '; ', ';', ';\r\n', ' ;\n\n'])
    units = [rng.choice(MANY_UNITS) for _ in range(rng.choice([1, 3, 7]))]
    return sep.join(units[i % len(units)] for i in range(n)) + \
        rng.choice([';', '', ';\n'])


EDGE_CHARS = ['\ufeff', '\ufeff', '\x00', '\xa0', '\u200b', '\r', '\x1c',
              '\ufffe', '\u2028', '\x85', '\x0c', '\ufeff\ufeff', ';', '#']


def hostile_text(rng):
    """The default mix used by the text-level properties; now and then the
    text gets an unusual first / last character (BOM, NUL, exotic blanks)."""
    kind, text = _hostile_text(rng)
    return kind, decorate(rng, text)


def decorate(rng, text):
    """Now and then an unusual first / last character."""
    x = rng.random()
    if x < 0.04:
        text = rng.choice(EDGE_CHARS) + text
    elif x < 0.07:
        text = text + rng.choice(['', '\n', ' ']) + rng.choice(EDGE_CHARS)
    return text


def _hostile_text(rng):
    x = rng.random()
    if x < 0.38:
        return 'charsoup', char_soup(rng)
    if x < 0.70:
        return 'tokensoup', token_soup(rng)
    if x < 0.81:
        return 'blocksoup', block_soup(rng)
    if x < 0.88:
        return 'chainsoup', chain_soup(rng)
    return 'corpusmut', corpus_mutation(rng)
