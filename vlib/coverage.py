"""Anchor coverage (reach information only; never decides a verdict).

A sys.monitoring LINE callback that disables itself per location after the
first hit records which executable lines of the files a property is anchored
in were reached by the shard's workload."""
import json
import os
import sys

from vlib import common

TOOL = 4
_hits = set()
_active = False


def _on_line(code, line):
    _hits.add((code.co_filename, line))
    return sys.monitoring.DISABLE


def start():
    global _active
    mon = getattr(sys, 'monitoring', None)
    if mon is None or _active:
        return False
    try:
        mon.use_tool_id(TOOL, 'verif-anchor-coverage')
    except ValueError:
        return False
    mon.register_callback(TOOL, mon.events.LINE, _on_line)
    mon.set_events(TOOL, mon.events.LINE)
    _active = True
    return True


def stop():
    global _active
    if not _active:
        return
    mon = sys.monitoring
    mon.set_events(TOOL, 0)
    mon.register_callback(TOOL, mon.events.LINE, None)
    mon.free_tool_id(TOOL)
    _active = False


def executable_lines(path):
    """Line numbers that carry code in any code object of the file."""
    try:
        with open(path, encoding='utf-8') as f:
            src = f.read()
        top = compile(src, path, 'exec')
    except Exception:
        return set()
    lines = set()
    stack = [top]
    while stack:
        co = stack.pop()
        for _, _, ln in co.co_lines():
            if ln is not None:
                lines.add(ln)
        for c in co.co_consts:
            if hasattr(c, 'co_lines'):
                stack.append(c)
    # module-level statements run at import time, before monitoring starts:
    # count only lines inside functions / classes bodies' functions
    mod_lines = {ln for _, _, ln in top.co_lines() if ln is not None}
    func_lines = set()
    stack = [c for c in top.co_consts if hasattr(c, 'co_lines')]
    while stack:
        co = stack.pop()
        if co.co_name not in ('<module>',):
            for _, _, ln in co.co_lines():
                if ln is not None:
                    func_lines.add(ln)
        for c in co.co_consts:
            if hasattr(c, 'co_lines'):
                stack.append(c)
    return func_lines


def anchor_files(prop):
    try:
        with open(os.path.join(common.VERIF, 'properties.jsonl')) as f:
            for l in f:
                p = json.loads(l)
                if p['id'] == prop:
                    return list(p['anchors'].get('files', []))
    except OSError:
        pass
    return []


def report(prop):
    """{relative file: [lines hit, executable lines inside functions]} and
    the list of hit lines (for merging across shards)."""
    out = {}
    for rel in anchor_files(prop):
        path = os.path.realpath(os.path.join(common.REPO, rel))
        exe = executable_lines(path)
        hit = sorted(ln for fn, ln in _hits
                     if os.path.realpath(fn) == path and ln in exe)
        out[rel] = {'hit': hit, 'executable': len(exe)}
    return out
